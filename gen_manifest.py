#!/usr/bin/env python3
"""Regenerates MANIFEST.json from the table below (kept in one place so that
the manifest stays valid while checks are added)."""
import json, subprocess

claimed = json.load(open('/verif/claimed.json'))
props = [json.loads(l) for l in open('/verif/properties.jsonl')]
checks, na = [], []
NA = {}
for p in props:
    pid = p['id']
    if pid in claimed:
        c = claimed[pid]
        checks.append({
            "property_id": pid,
            "quick_cmd": f"bin/verif check {pid} --tier quick",
            "thorough_cmd": f"bin/verif check {pid} --tier thorough --cross z3",
            "evidence_file": f"/verif/evidence/{pid}.json",
            "replay_cmd_template": "bin/verif replay {path}",
            "engine": "gosym",
            "level_claimed": {
                "category": "model_checking",
                "text": c["text"],
                "design_ref": c.get("design_ref", "DESIGN.md §11.3 " + pid),
            },
            "level_note": c["note"],
            "technique": c.get("technique", "bounded symbolic execution of dig's go/ssa form (own engine gosym), path feasibility and assertions discharged by z3; counterexamples replayed natively"),
        })
    else:
        na.append({"property_id": pid, "reason": NA.get(pid, "check not built yet")})
m = {
    "version": 1,
    "setup_cmd": "cd /verif/engine && GOFLAGS=-mod=vendor GOPROXY=off GOSUMDB=off GOTOOLCHAIN=local go build -o /verif/bin/verif ./cmd/verif",
    "hooks": {
        "guard": "verif",
        "enable": "harness files /verif/harness/zz_verif_*.go carry //go:build verif and are injected as overlays (go/packages Overlay for the symbolic run, go test -overlay -tags verif for native replay); nothing is written to /repo",
        "baseline_off_cmd": "cd /repo && go test -vet=off -count=1 ./...",
        "source_commits": [],
        "add_only": True,
    },
    "engines": [{
        "name": "gosym",
        "path": "/verif/engine",
        "serves_properties": sorted(claimed.keys()),
        "kind_free_text": "forking symbolic executor over go/ssa (x/tools v0.29.0, vendored) with SMT-LIB2 back end (z3 -in), reflect/fmt models, path exploration by re-execution; harnesses are in-package overlay Go files"
    }],
    "checks": checks,
    "not_applicable": na,
    "notes": "exit 0 = all explored paths satisfied the property clauses; exit 1 = VIOLATION (natively reproduced, not a listed known finding); exit 2 = inconclusive (never a VIOLATION line). See DESIGN.md."
}
json.dump(m, open('/verif/MANIFEST.json', 'w'), indent=1)
print("claimed:", sorted(claimed.keys()))
