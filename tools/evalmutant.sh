#!/bin/bash
# usage: tools/evalmutant.sh <name> <dir-with-mutant.patch-and-demo> <prop> [<prop>...]
# 1. confirms in a scratch worktree: patch applies, suite passes (except TestProvideLocation), demo fails with / passes without
# 2. runs the quick checks of the given properties against /repo with the patch applied, then restores /repo
set -u
export GOFLAGS=-mod=mod GOPROXY=off GOSUMDB=off GOTOOLCHAIN=local
name=$1; src=$2; shift 2
ev=/tmp/ev-$name
git -C /repo worktree remove --force $ev 2>/dev/null
git -C /repo worktree add -q --detach $ev HEAD || exit 2
P=$src/mutant.patch; [ -f $P ] || P=$src/patch.diff
D=$src/mutant_demo_test.go; [ -f $D ] || D=$src/demo_test.go
cp $D $ev/mutant_demo_test.go 2>/dev/null
cd $ev
r0=$(go test -vet=off -count=1 -run 'TestMutantDemo' . 2>&1 | tail -1)
echo "demo without patch: $r0"
git apply $P || { echo "PATCH DOES NOT APPLY"; exit 2; }
r1=$(go test -vet=off -count=1 -run 'TestMutantDemo' . 2>&1 | tail -1)
echo "demo with patch:    $r1"
rm -f mutant_demo_test.go
fails=$(go test -vet=off -count=1 ./... 2>&1 | grep -E '^--- FAIL' | grep -v TestProvideLocation)
echo "suite with patch, failures other than TestProvideLocation: [${fails}]"
cd /verif
git -C /repo worktree remove --force $ev
if ! git -C /repo diff --quiet; then echo "repo dirty"; exit 2; fi
git -C /repo apply $P || exit 2
for p in "$@"; do
  out=$(cd /verif && timeout 1500 ./bin/verif check "$p" --tier quick --validate 0 2>&1); rc=$?
  echo "--- check $p exit=$rc"
  echo "$out" | grep -E 'VIOLATION|KNOWN|INCONCLUSIVE' | cut -c1-220 | head -5
done
git -C /repo checkout -- .
