#!/bin/bash
# usage: HARNESS=<dir> tools/try.sh <seeded-dir-name> <entry> [<entry>...]
# Explores single harness entries against a scratch worktree of /repo with the seeded patch applied.
set -u
name=$1; shift
wt=/tmp/try/$name-$$
mkdir -p /tmp/try
git -C /repo worktree add -q --detach $wt HEAD || exit 2
( cd $wt && git apply /verif/seeded/$name/patch.diff ) || { echo "PATCH-DOES-NOT-APPLY"; git -C /repo worktree remove --force $wt; exit 2; }
for e in "$@"; do
  echo "== $name $e"
  timeout ${TRY_TIMEOUT:-900} /verif/bin/verif explore -repo $wt -harness ${HARNESS:-/verif/harness} -entry $e -budget ${BUDGET:-600} 2>&1 | grep -E '^paths|VIOL|ERROR|PANIC|FUEL|fuel paths|INCONC' | cut -c1-300 | head -8
done
git -C /repo worktree remove --force $wt
