#!/bin/bash
# sizes thorough candidates: runs each entry to exhaustion or budget, logs the summary line
cd /verif/engine && GOFLAGS=-mod=vendor GOPROXY=off GOSUMDB=off GOTOOLCHAIN=local go build -o ../bin/verif ./cmd/verif || exit 2
cd ..
for e in "$@"; do
  echo "== $e $(date +%H:%M:%S)"
  timeout 1000 ./bin/verif explore -harness $(pwd)/harness -entry $e -budget ${BUDGET:-600} 2>&1 | grep -E '^paths|VIOL|ERROR|PANIC|fuel paths|INCONC' | cut -c1-220 | head -6
done
echo DONE
