#!/bin/bash
# usage: tools/matrix.sh <seeded-dir-name> <prop> [<prop>...]
# Runs the quick checks of the given properties against a scratch worktree of /repo
# with seeded/<name>/patch.diff applied (so /repo itself stays untouched and several
# of these can run side by side).  Prints one line per property:
#   <name> <prop> exit=<rc> <VIOLATION|INCONCLUSIVE|clean> <first clause>
set -u
export GOFLAGS=-mod=mod GOPROXY=off GOSUMDB=off GOTOOLCHAIN=local
name=$1; shift
src=/verif/seeded/$name
wt=/tmp/mx/$name
mkdir -p /tmp/mx /tmp/logs
git -C /repo worktree remove --force $wt 2>/dev/null
git -C /repo worktree add -q --detach $wt HEAD || exit 2
( cd $wt && git apply $src/patch.diff ) || { echo "$name PATCH-DOES-NOT-APPLY"; git -C /repo worktree remove --force $wt; exit 2; }
for p in "$@"; do
  out=$(cd /verif && timeout ${MX_TIMEOUT:-1500} ./bin/verif check "$p" --tier ${MX_TIER:-quick} --validate 0 --repo $wt --evidence-dir /tmp/mx/ev-$name 2>&1); rc=$?
  echo "$out" > /tmp/logs/mx-$name-$p.log
  what=clean
  [ $rc -eq 1 ] && what=VIOLATION
  [ $rc -eq 2 ] && what=INCONCLUSIVE
  [ $rc -gt 2 ] && what=TIMEOUT
  first=$(echo "$out" | grep -E 'VIOLATION|INCONCLUSIVE' | head -1 | sed -e 's/.*clause=//' | cut -c1-120)
  echo "$name $p exit=$rc $what $first"
done
git -C /repo worktree remove --force $wt
rm -rf /tmp/mx/ev-$name
