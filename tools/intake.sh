#!/bin/bash
# usage: tools/intake.sh <seed-name> <src-dir> <property> "<needs>"
# Confirms a seeded change in a scratch worktree of /repo (patch applies, library builds, the
# existing suite passes apart from the baseline failure TestProvideLocation, the demonstration
# fails with the change and passes without it) and, only then, stores it as
# /verif/seeded/<seed-name>/{patch.diff,demo_test.go,NOTES.md,meta.json}.
set -u
export GOFLAGS=-mod=mod GOPROXY=off GOSUMDB=off GOTOOLCHAIN=local
name=$1; src=$2; prop=$3; needs=${4:-}
P=$src/mutant.patch; [ -f $P ] || P=$src/patch.diff
D=$src/mutant_demo_test.go; [ -f $D ] || D=$src/demo_test.go
[ -f $P ] && [ -f $D ] || { echo "$name: missing patch or demo"; exit 2; }
wt=/tmp/intake-$name
git -C /repo worktree remove --force $wt 2>/dev/null
git -C /repo worktree add -q --detach $wt HEAD || exit 2
cd $wt
cp $D mutant_demo_test.go
r0=$(go test -vet=off -count=1 -run 'TestMutantDemo' . 2>&1 | tail -1)
git apply $P || { echo "$name: PATCH DOES NOT APPLY"; cd /; git -C /repo worktree remove --force $wt; exit 2; }
b=$(go build ./... 2>&1 | tail -3)
r1=$(go test -vet=off -count=1 -run 'TestMutantDemo' . 2>&1 | tail -1)
rm -f mutant_demo_test.go
fails=$(go test -vet=off -count=1 ./... 2>&1 | grep -E '^(--- FAIL|FAIL|panic:)' | grep -v -E 'TestProvideLocation|^FAIL$|^FAIL\s+go.uber.org/dig\s' | tr '\n' ';')
base=$(git -C /repo rev-parse --short HEAD)
cd /; git -C /repo worktree remove --force $wt
echo "$name: demo without change: [$r0]  with change: [$r1]  build: [$b]  other suite failures: [$fails]"
case "$r0" in ok*) ;; *) echo "$name: REJECTED (demo does not pass on the unchanged tree)"; exit 1;; esac
case "$r1" in FAIL*) ;; *) echo "$name: REJECTED (demo does not fail with the change)"; exit 1;; esac
[ -z "$fails" ] && [ -z "$b" ] || { echo "$name: REJECTED (suite or build broken)"; exit 1; }
dst=/verif/seeded/$name
mkdir -p $dst
cp $P $dst/patch.diff; cp $D $dst/demo_test.go; [ -f $src/NOTES.md ] && cp $src/NOTES.md $dst/NOTES.md
python3 - "$dst" "$prop" "$needs" "$base" "$r0" "$r1" <<'EOF'
import json,sys
dst,prop,needs,base,r0,r1=sys.argv[1:7]
json.dump({
 "breaks_property": prop,
 "needs_to_manifest": needs,
 "base_commit": base,
 "confirmed": {
  "how": "tools/intake.sh: scratch worktree of /repo at base_commit; go test -vet=off -count=1 -run TestMutantDemo . without and with patch.diff; go test -vet=off -count=1 ./... with patch.diff",
  "demo_without_change": r0, "demo_with_change": r1,
  "suite_with_change": "only TestProvideLocation fails (baseline failure, depends on the checkout path)"
 },
 "files": {"patch": "patch.diff", "demonstration": "demo_test.go (TestMutantDemo)", "notes": "NOTES.md"}
}, open(dst+"/meta.json","w"), indent=1)
EOF
echo "$name: STORED"
