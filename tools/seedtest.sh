#!/bin/bash
# usage: tools/seedtest.sh <patch.diff> <prop> [<prop>...]
# Applies a patch to /repo, runs the quick checks of the given properties, restores /repo.
set -u
patch=$1; shift
cd /repo || exit 2
if ! git diff --quiet; then echo "repo dirty"; exit 2; fi
git apply "$patch" || { echo "patch does not apply"; exit 2; }
for p in "$@"; do
  out=$(cd /verif && timeout 1200 ./bin/verif check "$p" --tier quick --validate 0 2>&1); rc=$?
  echo "--- $p exit=$rc"
  echo "$out" | grep -E 'VIOLATION|KNOWN|INCONCLUSIVE|SUMMARY' | cut -c1-260 | head -8
done
git -C /repo checkout -- . 
