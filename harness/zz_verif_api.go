//go:build verif

package dig

// Harness runtime: the "nondet" interface between harness functions and the
// engine.  Under the symbolic executor (gosym) every function in this file
// whose name starts with verifNd / verifAssume / verifAssert / verifWitness /
// verifObserve is intercepted; the bodies below are the *native* side, used
// when a path found by the engine is replayed against the real build
// (go test -overlay), reading the solver's model from a replay file.

import (
	"encoding/json"
	"fmt"
	"os"
	"reflect"
)

// The universe of symbolic plain types.  Symbolically, verifNdType returns a
// pointer type with a symbolic identity in [0,16).
type vT0 struct{ Tok int64 }
type vT1 struct{ Tok int64 }
type vT2 struct{ Tok int64 }
type vT3 struct{ Tok int64 }
type vT4 struct{ Tok int64 }
type vT5 struct{ Tok int64 }
type vT6 struct{ Tok int64 }
type vT7 struct{ Tok int64 }
type vT8 struct{ Tok int64 }
type vT9 struct{ Tok int64 }
type vT10 struct{ Tok int64 }
type vT11 struct{ Tok int64 }
type vT12 struct{ Tok int64 }
type vT13 struct{ Tok int64 }
type vT14 struct{ Tok int64 }
type vT15 struct{ Tok int64 }

var verifPlainTypes = [16]reflect.Type{
	reflect.TypeOf(&vT0{}),
	reflect.TypeOf(&vT1{}),
	reflect.TypeOf(&vT2{}),
	reflect.TypeOf(&vT3{}),
	reflect.TypeOf(&vT4{}),
	reflect.TypeOf(&vT5{}),
	reflect.TypeOf(&vT6{}),
	reflect.TypeOf(&vT7{}),
	reflect.TypeOf(&vT8{}),
	reflect.TypeOf(&vT9{}),
	reflect.TypeOf(&vT10{}),
	reflect.TypeOf(&vT11{}),
	reflect.TypeOf(&vT12{}),
	reflect.TypeOf(&vT13{}),
	reflect.TypeOf(&vT14{}),
	reflect.TypeOf(&vT15{}),
}

type verifNdRec struct {
	Seq   int    `json:"seq"`
	Name  string `json:"name"`
	Kind  string `json:"kind"`
	Value int64  `json:"value"`
}

type verifReplayFile struct {
	Property string       `json:"property"`
	Entry    string       `json:"entry"`
	Profile  string       `json:"profile"`
	Nondet   []verifNdRec `json:"nondet"`
	Expect   struct {
		Clause   string   `json:"clause"`
		Kind     string   `json:"kind"`
		Observes []string `json:"observes"`
	} `json:"expect"`
}

type verifStop struct{ why string }

var verifRT struct {
	file     verifReplayFile
	pos      int
	observes []string
	failed   []string
	witness  []string
	diverged string
}

func verifLoadReplay(path string) error {
	b, err := os.ReadFile(path)
	if err != nil {
		return err
	}
	verifRT.file = verifReplayFile{}
	verifRT.pos = 0
	verifRT.observes = nil
	verifRT.failed = nil
	verifRT.witness = nil
	verifRT.diverged = ""
	return json.Unmarshal(b, &verifRT.file)
}

func verifNext(name, kind string) int64 {
	if verifRT.pos >= len(verifRT.file.Nondet) {
		verifRT.diverged = fmt.Sprintf("nondet %d (%s %s): replay file exhausted", verifRT.pos, kind, name)
		panic(verifStop{"diverged"})
	}
	r := verifRT.file.Nondet[verifRT.pos]
	if r.Name != name || r.Kind != kind {
		verifRT.diverged = fmt.Sprintf("nondet %d: native asks %s %q, replay has %s %q", verifRT.pos, kind, name, r.Kind, r.Name)
		panic(verifStop{"diverged"})
	}
	verifRT.pos++
	return r.Value
}

// verifNdInt returns an arbitrary int in [0,n).
func verifNdInt(name string, n int) int {
	v := verifNext(name, "int")
	if v < 0 || v >= int64(n) {
		verifRT.diverged = fmt.Sprintf("nondet %s: value %d outside [0,%d)", name, v, n)
		panic(verifStop{"diverged"})
	}
	return int(v)
}

// verifNdBool returns an arbitrary bool.
func verifNdBool(name string) bool { return verifNext(name, "bool") != 0 }

// verifNdI64 returns an arbitrary (unconstrained) int64.
func verifNdI64(name string) int64 { return verifNext(name, "i64") }

// verifNdType returns an arbitrary plain value type (pointer to one of
// vT0..vT15).  Symbolically only its identity is unknown.
func verifNdType(name string) reflect.Type { return verifPlainTypes[verifNext(name, "type")&15] }

// verifAssume restricts the inputs considered.
func verifAssume(c bool) {
	if !c {
		panic(verifStop{"assume"})
	}
}

// verifAssert states a property clause.
func verifAssert(clause string, c bool) {
	if !c {
		verifRT.failed = append(verifRT.failed, clause)
	}
}

// verifWitness marks that an interesting situation was reached.
func verifWitness(name string) { verifRT.witness = append(verifRT.witness, name) }

// verifObserve appends to the observation log compared between the symbolic
// and the native run.
func verifObserve(s string) { verifRT.observes = append(verifRT.observes, s) }

// verifEntries maps entry names to harness functions (for native replay).
var verifEntries = map[string]func(){}
