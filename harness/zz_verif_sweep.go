//go:build verif

package dig

// Feature sweeps: one entry explores a whole family of profiles.  The base
// skeleton is small (2 registrations, <=2 scopes, 1-2 Invokes); which optional
// features of the scenario machine are switched on is itself a nondet input,
// constrained to at most vSweepMax features at a time, so the solver enumerates
// every single feature and every pair (triple) of features instead of the
// hand-picked combinations of the other entries.

type vFeature struct {
	name string
	on   func(p *vProfile)
}

var vFeatures = []vFeature{
	{"export", func(p *vProfile) { p.export = true }},
	{"optional", func(p *vProfile) { p.optional = true; p.pForms = vMax(p.pForms, 2) }},
	{"groups", func(p *vProfile) { p.groups = true; p.pForms = vMax(p.pForms, 2) }},
	{"soft", func(p *vProfile) { p.groups = true; p.soft = true; p.pForms = vMax(p.pForms, 2) }},
	{"flatten", func(p *vProfile) { p.groups = true; p.flatten = true; p.pForms = vMax(p.pForms, 2) }},
	{"names", func(p *vProfile) { p.names = 2; p.pForms = vMax(p.pForms, 2) }},
	{"robj", func(p *vProfile) { p.rForms = 2; p.maxResults = 2 }},
	{"nested", func(p *vProfile) { p.pForms = 3 }},
	{"decor", func(p *vProfile) { p.decorators = 1 }},
	{"decor2", func(p *vProfile) { p.decorators = 1; p.decor2 = true; p.decor3 = true }},
	{"as", func(p *vProfile) { p.as = true; p.asObj = true }},
	{"late", func(p *vProfile) { p.lateRegs = 1; p.nInvokes = 2 }},
	{"latescopes", func(p *vProfile) { p.lateScopes = true; p.maxScopes = 3 }},
	{"twice", func(p *vProfile) { p.nInvokes = 2 }},
	{"errors", func(p *vProfile) { p.faults = 2; p.errPos = true }},
	{"panics", func(p *vProfile) { p.faults = 3; p.recoverOpt = 2 }},
	{"defer", func(p *vProfile) { p.deferOpt = 1 }},
	{"params2", func(p *vProfile) { p.maxParams = 2; p.invParams = 2 }},
	{"third", func(p *vProfile) { p.nRegs = 3 }},
}

func vMax(a, b int) int {
	if a > b {
		return a
	}
	return b
}

// vSweepProfile draws a profile: the base skeleton, the features in always, and
// at most max of the features in choice.
func vSweepProfile(name string, clauses []string, max int, always []string, choice []string) *vProfile {
	p := &vProfile{name: name, clauses: clauses,
		maxScopes: 2, nRegs: 2, maxParams: 1, maxResults: 1, pForms: 1, rForms: 1, names: 1,
		faults: 1, nInvokes: 1, invParams: 1}
	has := func(l []string, s string) bool {
		for _, x := range l {
			if x == s {
				return true
			}
		}
		return false
	}
	n := 0
	for _, f := range vFeatures {
		if has(always, f.name) {
			f.on(p)
			continue
		}
		if !has(choice, f.name) {
			continue
		}
		if verifNdBool("feat." + f.name) {
			n++
			verifAssume(n <= max)
			f.on(p)
			verifObserve("feature " + f.name)
		}
	}
	if n == max {
		verifWitness("sweep-full-combination")
	}
	return p
}

func vL(s ...string) []string { return s }

// one sweep per model-based property: every single feature and every pair of
// features from a list chosen for the property, on the two-registration skeleton
func verifS01() {
	verifRunProfile(vSweepProfile("S01", vC01, 2, nil, vL("export", "optional", "names", "robj", "decor", "decor2", "late", "latescopes", "twice")))
}
func verifS02() {
	verifRunProfile(vSweepProfile("S02", vC02, 2, vL("twice"), vL("export", "groups", "flatten", "decor", "decor2", "late", "latescopes", "third")))
}
func verifS03() {
	verifRunProfile(vSweepProfile("S03", vC03, 2, nil, vL("optional", "groups", "soft", "decor", "decor2", "export", "twice", "late")))
}
func verifS04() {
	verifRunProfile(vSweepProfile("S04", vC04, 2, vL("optional"), vL("nested", "export", "late", "names", "robj", "twice", "decor", "third")))
}
func verifS05() {
	verifRunProfile(vSweepProfile("S05", vC05s, 2, nil, vL("export", "groups", "optional", "defer", "latescopes", "late", "twice", "decor2")))
}
func verifS07() {
	verifRunProfile(vSweepProfile("S07", vC07, 2, vL("errors", "twice"), vL("panics", "decor", "decor2", "optional", "groups", "late", "export", "robj")))
}
func verifS08() {
	verifRunProfile(vSweepProfile("S08", vC08, 2, nil, vL("export", "latescopes", "late", "twice", "optional", "names", "decor", "groups")))
}
func verifS09() {
	verifRunProfile(vSweepProfile("S09", vC09, 2, nil, vL("names", "robj", "as", "groups", "export", "flatten", "late", "twice")))
}
func verifS10() {
	verifRunProfile(vSweepProfile("S10", vC10, 2, vL("groups"), vL("flatten", "export", "as", "late", "latescopes", "twice", "robj", "third")))
}
func verifS11() {
	verifRunProfile(vSweepProfile("S11", vC11, 2, vL("soft"), vL("robj", "late", "twice", "export", "decor", "optional", "params2", "third")))
}
func verifS12() {
	verifRunProfile(vSweepProfile("S12", append([]string{"C01.arg"}, vC12...), 2, vL("decor"), vL("decor2", "export", "groups", "latescopes", "twice", "late", "errors", "third")))
}
func verifS13() {
	verifRunProfile(vSweepProfile("S13", vC13, 2, vL("errors"), vL("panics", "decor", "optional", "defer", "export", "twice", "late", "groups")))
}

func init() {
	for n, f := range map[string]func(){
		"verifS01": verifS01, "verifS02": verifS02, "verifS03": verifS03, "verifS04": verifS04, "verifS05": verifS05, "verifS07": verifS07,
		"verifS08": verifS08, "verifS09": verifS09, "verifS10": verifS10, "verifS11": verifS11, "verifS12": verifS12, "verifS13": verifS13,
	} {
		verifEntries[n] = f
	}
}
