//go:build verif

package dig

// Feature sweeps: one entry explores a whole family of profiles.  The base
// skeleton is small (2 registrations, <=2 scopes, 1-2 Invokes); which optional
// features of the scenario machine are switched on is itself a nondet input,
// constrained to at most vSweepMax features at a time, so the solver enumerates
// every single feature and every pair (triple) of features instead of the
// hand-picked combinations of the other entries.

type vFeature struct {
	name string
	on   func(p *vProfile)
}

var vFeatures = []vFeature{
	{"export", func(p *vProfile) { p.export = true }},
	{"optional", func(p *vProfile) { p.optional = true; p.pForms = vMax(p.pForms, 2) }},
	{"groups", func(p *vProfile) { p.groups = true; p.pForms = vMax(p.pForms, 2) }},
	{"soft", func(p *vProfile) { p.groups = true; p.soft = true; p.pForms = vMax(p.pForms, 2) }},
	{"flatten", func(p *vProfile) { p.groups = true; p.flatten = true; p.pForms = vMax(p.pForms, 2) }},
	{"names", func(p *vProfile) { p.names = 2; p.pForms = vMax(p.pForms, 2) }},
	{"robj", func(p *vProfile) { p.rForms = 2; p.maxResults = 2 }},
	{"nested", func(p *vProfile) { p.pForms = 3 }},
	{"decor", func(p *vProfile) { p.decorators = 1 }},
	{"decor2", func(p *vProfile) { p.decorators = 1; p.decor2 = true; p.decor3 = true }},
	{"as", func(p *vProfile) { p.as = true; p.asObj = true }},
	{"late", func(p *vProfile) { p.lateRegs = 1; p.nInvokes = 2 }},
	{"latescopes", func(p *vProfile) { p.lateScopes = true; p.maxScopes = 3 }},
	{"twice", func(p *vProfile) { p.nInvokes = 2 }},
	{"errors", func(p *vProfile) { p.faults = 2; p.errPos = true }},
	{"panics", func(p *vProfile) { p.faults = 3; p.recoverOpt = 2 }},
	{"defer", func(p *vProfile) { p.deferOpt = 1 }},
	{"params2", func(p *vProfile) { p.maxParams = 2; p.invParams = 2 }},
	{"third", func(p *vProfile) { p.nRegs = 3 }},
}

func vMax(a, b int) int {
	if a > b {
		return a
	}
	return b
}

// vSweepProfile draws a profile: the base skeleton plus at most max features.
func vSweepProfile(name string, clauses []string, max int, exclude ...string) *vProfile {
	p := &vProfile{name: name, clauses: clauses,
		maxScopes: 2, nRegs: 2, maxParams: 1, maxResults: 1, pForms: 1, rForms: 1, names: 1,
		faults: 1, nInvokes: 1, invParams: 1}
	n := 0
	for _, f := range vFeatures {
		skip := false
		for _, x := range exclude {
			if x == f.name {
				skip = true
			}
		}
		if skip {
			continue
		}
		if verifNdBool("feat." + f.name) {
			n++
			verifAssume(n <= max)
			f.on(p)
			verifObserve("feature " + f.name)
		}
	}
	if n == max {
		verifWitness("sweep-full-combination")
	}
	return p
}

// the model-based properties share one sweep per property
func verifS01() { verifRunProfile(vSweepProfile("S01", vC01, 2)) }
func verifS02() { verifRunProfile(vSweepProfile("S02", vC02, 2)) }
func verifS03() { verifRunProfile(vSweepProfile("S03", vC03, 2)) }
func verifS04() { verifRunProfile(vSweepProfile("S04", vC04, 2)) }
func verifS07() { verifRunProfile(vSweepProfile("S07", vC07, 2)) }
func verifS08() { verifRunProfile(vSweepProfile("S08", vC08, 2)) }
func verifS09() { verifRunProfile(vSweepProfile("S09", vC09, 2)) }
func verifS10() { verifRunProfile(vSweepProfile("S10", vC10, 2)) }
func verifS11() { verifRunProfile(vSweepProfile("S11", vC11, 2)) }
func verifS12() { verifRunProfile(vSweepProfile("S12", vC12, 2)) }
func verifS13() { verifRunProfile(vSweepProfile("S13", vC13, 2)) }
func verifS05() { verifRunProfile(vSweepProfile("S05", vC05s, 2)) }

// every clause at once (used to size the sweep and to look for oracle errors)
func verifSAll() {
	verifRunProfile(vSweepProfile("SAll", []string{"C01.", "C02.", "C03.", "C04.", "C05s.", "C07.", "C08.", "C09.", "C10.", "C11.", "C12.", "C13."}, 2))
}

func init() {
	for n, f := range map[string]func(){
		"verifS01": verifS01, "verifS02": verifS02, "verifS03": verifS03, "verifS04": verifS04, "verifS05": verifS05, "verifS07": verifS07,
		"verifS08": verifS08, "verifS09": verifS09, "verifS10": verifS10, "verifS11": verifS11, "verifS12": verifS12, "verifS13": verifS13,
		"verifSAll": verifSAll,
	} {
		verifEntries[n] = f
	}
}
