//go:build verif

package dig

// History machine: builds user functions from descriptors with the real
// reflect API, drives the public dig API and logs what every user function
// observes.  Shared by the history-based property harnesses.

import (
	"errors"
	"reflect"
	"strconv"
	"time"
)

// ---- descriptors ---------------------------------------------------------------------

const (
	vCtor = iota
	vDecor
	vInvoked
)

const (
	vOK = iota
	vFail
	vPanic
)

type vKey struct {
	t     reflect.Type
	name  string
	group string
}

// eq compares two keys; the type comparison (possibly symbolic) comes last.
func (k vKey) eq(o vKey) bool {
	return k.name == o.name && k.group == o.group && k.t == o.t
}

type vParam struct {
	t        reflect.Type // value type; for groups the element type
	name     string
	group    string
	optional bool
	soft     bool
	form     int // 0 positional, 1 field of the param object, 2 field of a nested param object
}

func (p *vParam) key() vKey { return vKey{t: p.t, name: p.name, group: p.group} }

type vResult struct {
	t       reflect.Type
	name    string
	group   string
	flatten int  // 0 = not flattened, n>0 = flattened slice of n-1 elements
	form    int  // 0 positional (name/group from the Provide options), 1 field of the result object
	as      int  // 0 none, 1 = As(vI0), 2 = As(vI0, vI1), 3 = As(vI0, vI1, vI2); the Go type is then *vA
	whole   bool // decorator result replacing a whole group: a slice without the flatten tag
}

func (r *vResult) key() vKey { return vKey{t: r.t, name: r.name, group: r.group} }

// keys lists every key the result is provided under.
func (r *vResult) keys() []vKey {
	switch r.as {
	case 1:
		return []vKey{{t: vI0Type, name: r.name, group: r.group}}
	case 2:
		return []vKey{{t: vI0Type, name: r.name, group: r.group}, {t: vI1Type, name: r.name, group: r.group}}
	case 3:
		return []vKey{{t: vI0Type, name: r.name, group: r.group}, {t: vI1Type, name: r.name, group: r.group}, {t: vI2Type, name: r.name, group: r.group}}
	}
	return []vKey{r.key()}
}

func (r *vResult) hasKey(k vKey) bool {
	for _, rk := range r.keys() {
		if rk.eq(k) {
			return true
		}
	}
	return false
}

// concrete types for As
type vA struct{ Tok int64 }

func (*vA) vM0() {}
func (*vA) vM1() {}
func (*vA) vM2() {}

type vI0 interface{ vM0() }
type vI1 interface{ vM1() }
type vI2 interface{ vM2() }

var (
	vAType  = reflect.TypeOf(&vA{})
	vI0Type = reflect.TypeOf((*vI0)(nil)).Elem()
	vI1Type = reflect.TypeOf((*vI1)(nil)).Elem()
	vI2Type = reflect.TypeOf((*vI2)(nil)).Elem()
)

type vFunc struct {
	id       int
	kind     int
	params   []*vParam
	results  []*vResult
	retErr   bool
	errFirst bool // the error result comes first instead of last
	errKind  int  // 0: declared as error; 1: declared as the concrete type vErrCode (always fails with vErrCode(0))
	reenter  bool // execution 0 re-enters the container (Invoke of its own first result key)
	variadic bool
	export   bool
	callback bool
	fault    [3]int // outcome of execution 0,1,2
	optName  string
	optGroup string
	optAs    int
	// the nested parameter object is the last field of the outer one instead of the first
	nestedLast bool

	// Go-level layout
	typ      reflect.Type
	pArg     []int   // go argument index per param
	pPath    [][]int // field path inside that argument (nil = the argument itself)
	rOut     []int   // go result index per result
	rField   []int   // field index inside the result object, -1 = positional
	outTypes []reflect.Type
	errOut   int // index of the error result, -1 if none
}

var (
	vErrType = reflect.TypeOf((*error)(nil)).Elem()
	vInType  = reflect.TypeOf(In{})
	vOutType = reflect.TypeOf(Out{})
)

// vErr is the error type returned by failing user functions.
type vErr struct{ id int64 }

func (e *vErr) Error() string { return "verif user error" }

// vErrCode is a concrete, non-pointer error type: every value of it, the zero
// value included, is a non-nil error.
type vErrCode int

func (vErrCode) Error() string { return "verif error code" }

var vErrCodeType = reflect.TypeOf(vErrCode(0))

// vPanicVal is the value user functions panic with.
type vPanicVal struct{ id int64 }

func vTag(name, group string, optional, soft bool, flatten bool) reflect.StructTag {
	s := ""
	if name != "" {
		s += `name:"` + name + `" `
	}
	if group != "" {
		g := group
		if soft {
			g += ",soft"
		}
		if flatten {
			g += ",flatten"
		}
		s += `group:"` + g + `" `
	}
	if optional {
		s += `optional:"true" `
	}
	return reflect.StructTag(s)
}

func (p *vParam) goType() reflect.Type {
	if p.group != "" {
		return reflect.SliceOf(p.t)
	}
	return p.t
}

func (r *vResult) goType() reflect.Type {
	if r.flatten > 0 {
		return reflect.SliceOf(r.t)
	}
	return r.t
}

// layout computes the Go signature of f from its descriptor.
func (f *vFunc) layout() {
	var ins []reflect.Type
	f.pArg = make([]int, len(f.params))
	f.pPath = make([][]int, len(f.params))
	var outer, inner []reflect.StructField
	var outerIdx, innerIdx []int
	for i, p := range f.params {
		switch p.form {
		case 0:
			f.pArg[i] = len(ins)
			ins = append(ins, p.goType())
		case 1:
			outerIdx = append(outerIdx, i)
		default:
			innerIdx = append(innerIdx, i)
		}
	}
	if len(outerIdx)+len(innerIdx) > 0 {
		outer = append(outer, reflect.StructField{Name: "In", Type: vInType, Anonymous: true})
		if len(innerIdx) > 0 {
			inner = append(inner, reflect.StructField{Name: "In", Type: vInType, Anonymous: true})
			for _, i := range innerIdx {
				p := f.params[i]
				f.pPath[i] = []int{1, len(inner)}
				inner = append(inner, reflect.StructField{Name: "N" + strconv.Itoa(i), Type: p.goType(), Tag: vTag(p.name, p.group, p.optional, p.soft, false)})
			}
			if !f.nestedLast {
				outer = append(outer, reflect.StructField{Name: "Nested", Type: reflect.StructOf(inner)})
			}
		}
		for _, i := range outerIdx {
			p := f.params[i]
			f.pPath[i] = []int{len(outer)}
			outer = append(outer, reflect.StructField{Name: "F" + strconv.Itoa(i), Type: p.goType(), Tag: vTag(p.name, p.group, p.optional, p.soft, false)})
		}
		if len(innerIdx) > 0 && f.nestedLast {
			// the nested object is declared after the plain fields of the outer object
			for _, i := range innerIdx {
				f.pPath[i][0] = len(outer)
			}
			outer = append(outer, reflect.StructField{Name: "Nested", Type: reflect.StructOf(inner)})
		}
		for _, i := range outerIdx {
			f.pArg[i] = len(ins)
		}
		for _, i := range innerIdx {
			f.pArg[i] = len(ins)
		}
		ins = append(ins, reflect.StructOf(outer))
	}
	if f.variadic {
		ins = append(ins, reflect.SliceOf(reflect.TypeOf(0)))
	}
	var outs []reflect.Type
	f.rOut = make([]int, len(f.results))
	f.rField = make([]int, len(f.results))
	var ofields []reflect.StructField
	var oidx []int
	for i, r := range f.results {
		if r.form == 0 {
			f.rOut[i] = len(outs)
			f.rField[i] = -1
			outs = append(outs, r.goType())
		} else {
			oidx = append(oidx, i)
		}
	}
	if len(oidx) > 0 {
		ofields = append(ofields, reflect.StructField{Name: "Out", Type: vOutType, Anonymous: true})
		for _, i := range oidx {
			r := f.results[i]
			f.rField[i] = len(ofields)
			f.rOut[i] = len(outs)
			ofields = append(ofields, reflect.StructField{Name: "R" + strconv.Itoa(i), Type: r.goType(), Tag: vTag(r.name, r.group, false, false, r.flatten > 0 && !r.whole)})
		}
		outs = append(outs, reflect.StructOf(ofields))
	}
	f.errOut = -1
	et := vErrType
	if f.errKind == 1 {
		et = vErrCodeType
	}
	if f.retErr && f.errFirst {
		f.errOut = 0
		outs = append([]reflect.Type{et}, outs...)
		for i := range f.rOut {
			f.rOut[i]++
		}
	} else if f.retErr {
		f.errOut = len(outs)
		outs = append(outs, et)
	}
	f.outTypes = outs
	f.typ = reflect.FuncOf(ins, outs, f.variadic)
}

// ---- runtime (per container) ------------------------------------------------------------

type vVal struct {
	ptr  uintptr // identity of the *vT value
	tok  int64
	by   *vExec
	res  int // result index in by.reg.f
	elem int // element index for flattened results
}

type vRecv struct {
	isNil bool
	ptr   uintptr
	tok   int64
	list  []vRecv // for group params
	isGrp bool
}

type vExec struct {
	reg     *vReg
	n       int // 0-based execution number of this function
	args    []vRecv
	outs    []*vVal
	outcome int
	err     *vErr
	pval    *vPanicVal
	done    bool
	invoke  int // index of the Invoke during which it ran (-1 outside)
	tEnter  int64
	tExit   int64
	code    bool // failed with the concrete error value vErrCode(0)
	nested  int  // outcome class of the nested Invoke (re-entering functions), -1 if none
	nestRan bool // the nested Invoke called its function
}

type vReg struct {
	f        *vFunc
	scope    int // scope the call targeted
	home     int // scope the registration lives in (root if exported)
	accepted bool
	err      error
	fnv      reflect.Value
	execs    []*vExec
	cbs      []CallbackInfo
	seq      int
}

func (r *vReg) succeeded() *vExec {
	for _, e := range r.execs {
		if e.done && e.outcome == vOK {
			return e
		}
	}
	return nil
}

type vWorld struct {
	name    string
	c       *Container
	scopes  []*Scope
	parent  []int
	regs    []*vReg
	stack   []*vExec
	vals    []*vVal
	nexec   int
	invokes int
	cur     int // current invoke index or -1
	en      map[string]bool
	events  []string
	recover bool
	deferV  bool
	dry     bool
	onEnter func(w *vWorld, e *vExec)
	clockFn func(w *vWorld) int64
	inv     *vClosure
	log     []string // per-operation observation log
	seg     []string
	resCyc  bool
	statCyc bool
	permCyc bool

	// symbolic clock (C20)
	clocked  bool
	badClock bool // Since was asked about an instant the clock never returned
	now      int64
	readings []int64
	onCB     func(w *vWorld, r *vReg, ci CallbackInfo)
}

func (w *vWorld) gotCallback(r *vReg, ci CallbackInfo) {
	r.cbs = append(r.cbs, ci)
	if w.onCB != nil {
		w.onCB(w, r, ci)
	}
}

// vClock is the digclock.Clock installed by the C20 harness.  Now returns
// sequence-numbered instants; the real (symbolic) readings are kept aside.
type vClock struct{ w *vWorld }

func (c vClock) Now() time.Time {
	k := len(c.w.readings)
	c.w.readings = append(c.w.readings, c.w.now)
	return time.Unix(0, int64(k)+1)
}

func (c vClock) Since(t time.Time) time.Duration {
	k := t.UnixNano() - 1
	if k < 0 || k >= int64(len(c.w.readings)) {
		// an instant this clock never handed out (e.g. the zero Time)
		c.w.badClock = true
		return 0
	}
	return time.Duration(c.w.now - c.w.readings[k])
}

func (w *vWorld) record(s string) {
	w.log = append(w.log, s)
	w.seg = append(w.seg, s)
	verifObserve(w.name + ":" + s)
}

// takeSeg returns the records written since the last call, with the
// execution lines sorted (execution order inside one operation is
// unspecified) and joined.
func (w *vWorld) takeSeg(withExecs bool) string {
	c, e := w.takeSeg2()
	if withExecs {
		return c + e
	}
	return c
}

// takeSeg2 returns the verdict part and the (sorted) execution part of the
// records written since the last call.
func (w *vWorld) takeSeg2() (string, string) {
	withExecs := true
	seg := w.seg
	w.seg = nil
	var execs []string
	out := ""
	for _, l := range seg {
		if len(l) > 0 && l[0] == ' ' {
			if withExecs {
				execs = append(execs, l)
			}
			continue
		}
		out += l + "|"
	}
	for a := 1; a < len(execs); a++ {
		for b := a; b > 0 && execs[b] < execs[b-1]; b-- {
			execs[b], execs[b-1] = execs[b-1], execs[b]
		}
	}
	ex := ""
	for _, e := range execs {
		ex += e
	}
	return out, ex
}

// vIsOK reports whether a verdict segment describes a successful Invoke.
func vIsOK(seg string) bool {
	for i := 0; i+4 <= len(seg); i++ {
		if seg[i:i+4] == ":ok:" {
			return true
		}
	}
	return false
}

func vNewWorld(name string, opts ...Option) *vWorld {
	w := &vWorld{name: name, cur: -1}
	w.c = New(opts...)
	w.scopes = []*Scope{w.c.scope}
	w.parent = []int{-1}
	return w
}

func (w *vWorld) newScope(parent int) int {
	s := w.scopes[parent].Scope("s" + strconv.Itoa(len(w.scopes)))
	w.scopes = append(w.scopes, s)
	w.parent = append(w.parent, parent)
	return len(w.scopes) - 1
}

// pathToRoot lists scope indices from s up to the root.
func (w *vWorld) pathToRoot(s int) []int {
	var r []int
	for ; s >= 0; s = w.parent[s] {
		r = append(r, s)
	}
	return r
}

func (w *vWorld) isAncestorOrSelf(a, s int) bool {
	for ; s >= 0; s = w.parent[s] {
		if s == a {
			return true
		}
	}
	return false
}

func vReadRecv(v reflect.Value) vRecv {
	if v.IsNil() {
		return vRecv{isNil: true}
	}
	if v.Kind() == reflect.Interface {
		v = v.Elem()
		if v.IsNil() {
			// a typed nil pointer inside a non-nil interface (a constructor that
			// returned nil for an As-provided result)
			return vRecv{isNil: true}
		}
	}
	return vRecv{ptr: v.Pointer(), tok: v.Elem().Field(0).Int()}
}

func vField(v reflect.Value, path []int) reflect.Value {
	for _, i := range path {
		v = v.Field(i)
	}
	return v
}

// makeFn builds the Go function for a registration.
func (w *vWorld) makeFn(r *vReg) reflect.Value {
	f := r.f
	return reflect.MakeFunc(f.typ, func(args []reflect.Value) []reflect.Value {
		e := &vExec{reg: r, n: len(r.execs), invoke: w.cur, nested: -1}
		r.execs = append(r.execs, e)
		w.nexec++
		for i, p := range f.params {
			v := vField(args[f.pArg[i]], f.pPath[i])
			if p.group != "" {
				rc := vRecv{isGrp: true}
				for j := 0; j < v.Len(); j++ {
					rc.list = append(rc.list, vReadRecv(v.Index(j)))
				}
				e.args = append(e.args, rc)
			} else {
				e.args = append(e.args, vReadRecv(v))
			}
		}
		w.stack = append(w.stack, e)
		if w.clocked {
			e.tEnter = w.now
			dt := verifNdI64("dt")
			verifAssume(dt >= 0 && dt < 1<<40)
			w.now += dt
		}
		if w.onEnter != nil {
			w.onEnter(w, e)
		}
		if f.reenter && e.n == 0 && len(f.results) > 0 {
			w.reenter(r, e)
		}
		outs := make([]reflect.Value, len(f.outTypes))
		for i, t := range f.outTypes {
			outs[i] = reflect.New(t).Elem()
		}
		for i, res := range f.results {
			var dst reflect.Value
			if f.rField[i] < 0 {
				dst = outs[f.rOut[i]]
			} else {
				dst = outs[f.rOut[i]].Field(f.rField[i])
			}
			if res.flatten > 0 {
				n := res.flatten - 1
				sl := reflect.MakeSlice(reflect.SliceOf(res.t), n, n)
				for j := 0; j < n; j++ {
					nv := w.newVal(e, i, j, res.t)
					sl.Index(j).Set(nv)
				}
				dst.Set(sl)
			} else {
				dst.Set(w.newVal(e, i, 0, res.t))
			}
		}
		plan := vOK
		if e.n < len(f.fault) {
			plan = f.fault[e.n]
		}
		e.outcome = plan
		if w.clocked {
			e.tExit = w.now
		}
		w.stack = w.stack[:len(w.stack)-1]
		e.done = true
		switch plan {
		case vPanic:
			e.pval = &vPanicVal{id: verifNdI64("panic")}
			panic(e.pval)
		case vFail:
			if f.errOut >= 0 && f.errKind == 1 {
				e.code = true // the zero vErrCode already in outs is the error
			} else if f.errOut >= 0 {
				e.err = &vErr{id: verifNdI64("err")}
				outs[f.errOut].Set(reflect.ValueOf(e.err))
			} else {
				e.outcome = vOK
			}
		}
		return outs
	})
}

// reenter makes the running function r call Invoke on its own scope for the
// first key it produces (a dependency edge the static graph cannot see).
func (w *vWorld) reenter(r *vReg, e *vExec) {
	k := r.f.results[0].keys()[0]
	p := &vParam{t: k.t, name: k.name, group: k.group}
	if k.name != "" || k.group != "" {
		p.form = 1
	}
	g := &vFunc{id: 100 + r.f.id, kind: vInvoked, params: []*vParam{p}}
	g.layout()
	fn := reflect.MakeFunc(g.typ, func([]reflect.Value) []reflect.Value {
		e.nestRan = true
		return nil
	})
	o := vGuard(func() error { return w.scopes[r.scope].Invoke(fn.Interface()) })
	e.nested = o.class
	ran := "0"
	if e.nestRan {
		ran = "1"
	}
	w.record(" nested f" + vItoa(r.f.id) + ":" + vClassNames[o.class] + ":ran=" + ran + vPanicText(o.panicv))
	verifWitness("reentered")
}

func (w *vWorld) newVal(e *vExec, res, elem int, t reflect.Type) reflect.Value {
	nv := reflect.New(t.Elem())
	tok := verifNdI64("tok")
	nv.Elem().Field(0).SetInt(tok)
	val := &vVal{ptr: nv.Pointer(), tok: tok, by: e, res: res, elem: elem}
	e.outs = append(e.outs, val)
	w.vals = append(w.vals, val)
	return nv
}

func (w *vWorld) findVal(ptr uintptr) *vVal {
	for _, v := range w.vals {
		if v.ptr == ptr {
			return v
		}
	}
	return nil
}

// ---- API calls with classification ---------------------------------------------------------

const (
	vcOK = iota
	vcCycle
	vcDig
	vcUser
	vcPanicErr
	vcOther
	vcPanicked // a panic escaped the API call
)

var vClassNames = [...]string{"ok", "cycle", "dig", "user", "panicerr", "other", "panicked"}

type vOutcome struct {
	class  int
	err    error
	uerr   *vErr
	ucode  bool
	pval   interface{}
	panicv interface{}
}

func vClassify(err error) vOutcome {
	if err == nil {
		return vOutcome{class: vcOK}
	}
	o := vOutcome{err: err}
	if IsCycleDetected(err) {
		o.class = vcCycle
		return o
	}
	var pe PanicError
	if errors.As(err, &pe) {
		o.class = vcPanicErr
		o.pval = pe.Panic
		return o
	}
	rc := RootCause(err)
	if ue, ok := rc.(*vErr); ok {
		o.class = vcUser
		o.uerr = ue
		return o
	}
	if _, ok := rc.(vErrCode); ok {
		o.class = vcUser
		o.ucode = true
		return o
	}
	var de Error
	if errors.As(rc, &de) {
		o.class = vcDig
		return o
	}
	o.class = vcOther
	return o
}

func vGuard(fn func() error) (o vOutcome) {
	defer func() {
		if p := recover(); p != nil {
			if _, stop := p.(verifStop); stop {
				panic(p)
			}
			o = vOutcome{class: vcPanicked, panicv: p}
		}
	}()
	return vClassify(fn())
}

func (f *vFunc) provideOpts(r *vReg, w *vWorld) []ProvideOption {
	var opts []ProvideOption
	if f.optName != "" {
		opts = append(opts, Name(f.optName))
	}
	if f.optGroup != "" {
		opts = append(opts, Group(f.optGroup))
	}
	if f.export {
		opts = append(opts, Export(true))
	}
	switch f.optAs {
	case 1:
		opts = append(opts, As(new(vI0)))
	case 2:
		opts = append(opts, As(new(vI0), new(vI1)))
	case 3:
		opts = append(opts, As(new(vI0), new(vI1), new(vI2)))
	}
	if f.callback {
		opts = append(opts, WithProviderCallback(func(ci CallbackInfo) { w.gotCallback(r, ci) }))
	}
	return opts
}

// register performs Provide or Decorate of f in scope s.
func (w *vWorld) register(f *vFunc, s int) (*vReg, vOutcome) {
	r := &vReg{f: f, scope: s, home: s, seq: len(w.regs)}
	if f.export && f.kind == vCtor {
		r.home = 0
	}
	r.fnv = w.makeFn(r)
	var o vOutcome
	before := w.nexec
	if f.kind == vDecor {
		var opts []DecorateOption
		if f.callback {
			opts = append(opts, WithDecoratorCallback(func(ci CallbackInfo) { w.gotCallback(r, ci) }))
		}
		o = vGuard(func() error { return w.scopes[s].Decorate(r.fnv.Interface(), opts...) })
	} else {
		opts := f.provideOpts(r, w)
		o = vGuard(func() error { return w.scopes[s].Provide(r.fnv.Interface(), opts...) })
	}
	r.accepted = o.class == vcOK
	r.err = o.err
	w.regs = append(w.regs, r)
	if w.nexec != before {
		w.events = append(w.events, "EXEC-DURING-REGISTER")
	}
	return r, o
}

// invoke calls Invoke of f from scope s.
func (w *vWorld) invoke(f *vFunc, s int) (*vReg, vOutcome) {
	r := &vReg{f: f, scope: s, home: s, seq: -1}
	r.fnv = w.makeFn(r)
	w.cur = w.invokes
	w.invokes++
	o := vGuard(func() error { return w.scopes[s].Invoke(r.fnv.Interface()) })
	w.cur = -1
	w.stack = w.stack[:0]
	return r, o
}

func vItoa(i int) string { return strconv.Itoa(i) }

// vPanicText describes a recovered panic value for the observation log.
func vPanicText(p interface{}) string {
	switch p := p.(type) {
	case nil:
		return ""
	case string:
		return p
	case error:
		return p.Error()
	case *vPanicVal:
		return "user-panic"
	}
	return "other-panic"
}
