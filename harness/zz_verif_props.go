//go:build verif

package dig

// Entry points: one per property, tier and scenario.  A property = profiles
// (bounds) plus the set of clause prefixes it owns.

func verifRunProfile(p *vProfile) {
	h := &vHist{p: p}
	h.run()
}

// ---- C01: injected values are exactly the registered constructors' outputs

var vC01 = []string{"C01."}

// param objects, optional fields, 2 scopes
func verifC01a() {
	verifRunProfile(&vProfile{name: "C01a", clauses: vC01,
		maxScopes: 2, nRegs: 2, maxParams: 1, maxResults: 1,
		pForms: 2, rForms: 1, names: 1, optional: true,
		faults: 1, nInvokes: 1, invParams: 1, distinct: true})
}

// positional only, 3 constructors, Export, 2 scopes, 2 Invokes
func verifC01b() {
	verifRunProfile(&vProfile{name: "C01b", clauses: vC01,
		maxScopes: 2, nRegs: 2, maxParams: 1, maxResults: 1,
		pForms: 1, rForms: 1, names: 1, export: true,
		faults: 1, nInvokes: 2, invParams: 1, distinct: true, noMissing: true})
}

// names, result objects, two results
func verifC01c() {
	verifRunProfile(&vProfile{name: "C01c", clauses: vC01,
		maxScopes: 1, nRegs: 1, maxParams: 0, maxResults: 2,
		pForms: 2, rForms: 2, names: 2,
		faults: 1, nInvokes: 1, invParams: 2, distinct: true, noMissing: true})
}

// one decorator among the registrations
func verifC01d() {
	verifRunProfile(&vProfile{name: "C01d", clauses: vC01,
		maxScopes: 2, nRegs: 3, maxParams: 1, maxResults: 1,
		pForms: 1, rForms: 1, names: 1, decorators: 1,
		faults: 1, nInvokes: 1, invParams: 1, distinct: true, noMissing: true})
}

func init() {
	verifEntries["verifC01a"] = verifC01a
	verifEntries["verifC01b"] = verifC01b
	verifEntries["verifC01c"] = verifC01c
	verifEntries["verifC01d"] = verifC01d
}

// ---- C02: singletons
var vC02 = []string{"C02."}

func verifC02a() { // repeated demands from several scopes, Export
	verifRunProfile(&vProfile{name: "C02a", clauses: vC02,
		maxScopes: 2, nRegs: 2, maxParams: 1, maxResults: 1, pForms: 1, rForms: 1, names: 1, export: true,
		faults: 1, nInvokes: 2, invParams: 1, distinct: true, noMissing: true, lateScopes: true})
}

func verifC02b() { // decorator input and group membership as demand paths
	verifRunProfile(&vProfile{name: "C02b", clauses: vC02,
		maxScopes: 1, nRegs: 3, maxParams: 1, maxResults: 1, pForms: 1, rForms: 1, names: 1, decorators: 1,
		faults: 1, nInvokes: 2, invParams: 1, distinct: true, noMissing: true})
}

func verifC02c() { // groups
	verifRunProfile(&vProfile{name: "C02c", clauses: vC02,
		maxScopes: 1, nRegs: 2, maxParams: 1, maxResults: 1, pForms: 2, rForms: 1, names: 1, groups: true, flatten: true,
		faults: 1, nInvokes: 2, invParams: 1, distinct: true, noMissing: true})
}

// ---- C03: laziness
var vC03 = []string{"C03."}

func verifC03a() {
	verifRunProfile(&vProfile{name: "C03a", clauses: vC03,
		maxScopes: 2, nRegs: 3, maxParams: 1, maxResults: 1, pForms: 1, rForms: 1, names: 1,
		faults: 1, nInvokes: 1, invParams: 1, distinct: true, quietCalls: true})
}

func verifC03b() { // optional edges, groups, soft groups
	verifRunProfile(&vProfile{name: "C03b", clauses: vC03,
		maxScopes: 1, nRegs: 2, maxParams: 1, maxResults: 1, pForms: 2, rForms: 1, names: 1, optional: true, groups: true, soft: true,
		faults: 1, nInvokes: 1, invParams: 1, distinct: true})
}

// ---- C04: missing dependencies
var vC04 = []string{"C04."}

func verifC04a() {
	verifRunProfile(&vProfile{name: "C04a", clauses: vC04,
		maxScopes: 2, nRegs: 2, maxParams: 1, maxResults: 1, pForms: 2, rForms: 1, names: 1, optional: true,
		faults: 1, nInvokes: 1, invParams: 1, distinct: true})
}

func verifC04b() { // depth 3 chain in one scope, then a second Invoke
	verifRunProfile(&vProfile{name: "C04b", clauses: vC04,
		maxScopes: 1, nRegs: 3, maxParams: 1, maxResults: 1, pForms: 2, rForms: 1, names: 1, optional: true,
		faults: 1, nInvokes: 1, invParams: 1, distinct: true})
}

// ---- C07: failed executions
var vC07 = []string{"C07."}

func verifC07a() {
	verifRunProfile(&vProfile{name: "C07a", clauses: vC07,
		maxScopes: 1, nRegs: 2, maxParams: 1, maxResults: 1, pForms: 1, rForms: 1, names: 1,
		faults: 3, recoverOpt: 2, nInvokes: 2, invParams: 1, distinct: true, noMissing: true})
}

func verifC07b() { // a decorator that may fail, by error or by panic
	verifRunProfile(&vProfile{name: "C07b", clauses: vC07,
		maxScopes: 1, nRegs: 2, maxParams: 1, maxResults: 1, pForms: 1, rForms: 1, names: 1, decorators: 1,
		faults: 3, recoverOpt: 2, nInvokes: 2, invParams: 1, distinct: true, noMissing: true})
}

// ---- C08: scope visibility
var vC08 = []string{"C08.", "C01.arg", "C01.zero"}

func verifC08a() {
	verifRunProfile(&vProfile{name: "C08a", clauses: vC08,
		maxScopes: 3, nRegs: 2, maxParams: 1, maxResults: 1, pForms: 1, rForms: 1, names: 1, export: true,
		faults: 1, nInvokes: 1, invParams: 1, lateScopes: true})
}

// ---- C10 / C11: value groups
var vC10 = []string{"C10."}

func verifC10a() { // placement in the scope tree, Export
	verifRunProfile(&vProfile{name: "C10a", clauses: vC10,
		maxScopes: 2, nRegs: 2, maxParams: 0, maxResults: 1, pForms: 2, rForms: 2, names: 1, groups: true, export: true,
		faults: 1, nInvokes: 1, invParams: 1})
}

func verifC10b() { // flatten, a feeder added between two requests
	verifRunProfile(&vProfile{name: "C10b", clauses: vC10,
		maxScopes: 1, nRegs: 1, maxParams: 0, maxResults: 1, pForms: 2, rForms: 2, names: 1, groups: true, flatten: true,
		faults: 1, nInvokes: 2, invParams: 1, lateRegs: 1})
}

var vC11 = []string{"C11."}

func verifC11a() { // soft group next to a hard dependency in one object
	verifRunProfile(&vProfile{name: "C11a", clauses: vC11,
		maxScopes: 1, nRegs: 1, maxParams: 0, maxResults: 2, pForms: 2, rForms: 2, names: 1, groups: true, soft: true,
		faults: 1, nInvokes: 1, invParams: 2})
}

func verifC11b() { // an earlier Invoke runs feeders, a later soft consumer sees them
	verifRunProfile(&vProfile{name: "C11b", clauses: vC11,
		maxScopes: 1, nRegs: 2, maxParams: 0, maxResults: 1, pForms: 2, rForms: 2, names: 1, groups: true, soft: true,
		faults: 1, nInvokes: 2, invParams: 1})
}

// ---- C12: decoration
var vC12 = []string{"C12."}

func verifC12a() {
	verifRunProfile(&vProfile{name: "C12a", clauses: vC12,
		maxScopes: 2, nRegs: 2, maxParams: 1, maxResults: 1, pForms: 1, rForms: 1, names: 1, decorators: 2,
		faults: 1, nInvokes: 2, invParams: 1, distinct: true, noMissing: true})
}

// ---- C13: errors
var vC13 = []string{"C13."}

func verifC13a() {
	verifRunProfile(&vProfile{name: "C13a", clauses: vC13,
		maxScopes: 2, nRegs: 2, maxParams: 1, maxResults: 1, pForms: 2, rForms: 1, names: 1,
		faults: 3, recoverOpt: 2, nInvokes: 1, invParams: 1, distinct: true})
}

func init() {
	for n, f := range map[string]func(){
		"verifC02a": verifC02a, "verifC02b": verifC02b, "verifC02c": verifC02c,
		"verifC03a": verifC03a, "verifC03b": verifC03b, "verifC04a": verifC04a, "verifC04b": verifC04b,
		"verifC07a": verifC07a, "verifC07b": verifC07b, "verifC08a": verifC08a, "verifC10a": verifC10a,
		"verifC11a": verifC11a, "verifC11b": verifC11b, "verifC10b": verifC10b, "verifC12a": verifC12a, "verifC13a": verifC13a,
	} {
		verifEntries[n] = f
	}
}

// ---- C05 (system part): cycles through the public API
var vC05s = []string{"C05s.", "C02.reentry"}

func verifC05sa() { // no defer: every Provide is checked
	verifRunProfile(&vProfile{name: "C05sa", clauses: vC05s,
		maxScopes: 2, nRegs: 2, maxParams: 1, maxResults: 1, pForms: 1, rForms: 1, names: 1, export: true,
		faults: 1, nInvokes: 1, invParams: 1, distinct: true})
}

func verifC05sb() { // DeferAcyclicVerification
	verifRunProfile(&vProfile{name: "C05sb", clauses: vC05s,
		maxScopes: 2, nRegs: 2, maxParams: 1, maxResults: 1, pForms: 1, rForms: 1, names: 1, export: true, deferOpt: 1,
		faults: 1, nInvokes: 2, invParams: 1, distinct: true})
}

func verifC05sc() { // group and optional edges
	verifRunProfile(&vProfile{name: "C05sc", clauses: vC05s,
		maxScopes: 1, nRegs: 2, maxParams: 1, maxResults: 1, pForms: 2, rForms: 1, names: 1, groups: true, optional: true, deferOpt: 2,
		faults: 1, nInvokes: 1, invParams: 1, distinct: true})
}

// ---- C09: key identity
var vC09 = []string{"C09.", "C01.arg", "C01.zero", "C01.foreign", "C04.err"}

func verifC09a() { // names and result objects, duplicates allowed
	verifRunProfile(&vProfile{name: "C09a", clauses: vC09,
		maxScopes: 1, nRegs: 2, maxParams: 0, maxResults: 2, pForms: 2, rForms: 2, names: 2,
		faults: 1, nInvokes: 1, invParams: 1})
}

func verifC09b() { // As
	verifRunProfile(&vProfile{name: "C09b", clauses: vC09,
		maxScopes: 1, nRegs: 2, maxParams: 0, maxResults: 1, pForms: 2, rForms: 1, names: 2, as: true, groups: true,
		faults: 1, nInvokes: 1, invParams: 2})
}

func init() {
	for n, f := range map[string]func(){
		"verifC05sa": verifC05sa, "verifC05sb": verifC05sb, "verifC05sc": verifC05sc, "verifC09a": verifC09a, "verifC09b": verifC09b,
	} {
		verifEntries[n] = f
	}
}

func verifC02d() { // decorators with an extra dependency or a second key
	verifRunProfile(&vProfile{name: "C02d", clauses: append([]string{"C05s."}, vC02...),
		maxScopes: 1, nRegs: 3, maxParams: 1, maxResults: 1, pForms: 1, rForms: 1, names: 1, decorators: 1, decor2: true,
		faults: 1, nInvokes: 1, invParams: 1, distinct: true, noMissing: true})
}

func init() { verifEntries["verifC02d"] = verifC02d }

// ---- profiles added after the first round of seeded changes ---------------------------------

func verifC04c() { // exported constructors whose dependencies live in the providing scope
	verifRunProfile(&vProfile{name: "C04c", clauses: vC04,
		maxScopes: 2, nRegs: 2, maxParams: 1, maxResults: 1, pForms: 1, rForms: 1, names: 1, export: true,
		faults: 1, nInvokes: 1, invParams: 1, distinct: true})
}

func verifC05sd() { // a chain of three scopes: cycles visible only from the leaf
	verifRunProfile(&vProfile{name: "C05sd", clauses: vC05s,
		maxScopes: 3, nRegs: 2, maxParams: 1, maxResults: 1, pForms: 1, rForms: 1, names: 1,
		faults: 1, nInvokes: 1, invParams: 0, distinct: true})
}

func verifC03c() { // decorated value groups: their feeders are only needed by the decorator
	verifRunProfile(&vProfile{name: "C03c", clauses: vC03,
		maxScopes: 2, nRegs: 2, maxParams: 0, maxResults: 1, pForms: 2, rForms: 2, names: 1, groups: true, decorators: 1, decor2: true,
		faults: 1, nInvokes: 1, invParams: 1})
}

func verifC12b() { // two decorators of one key at two levels, input-less decorators, two Invokes
	verifRunProfile(&vProfile{name: "C12b", clauses: append([]string{"C01.arg"}, vC12...),
		maxScopes: 2, nRegs: 3, maxParams: 0, maxResults: 1, pForms: 1, rForms: 1, names: 1, decorators: 2, decor2: true,
		regKinds: []int{vCtor, vDecor, vDecor}, faults: 1, nInvokes: 2, invParams: 1, noMissing: true})
}

func init() {
	for n, f := range map[string]func(){
		"verifC04c": verifC04c, "verifC05sd": verifC05sd, "verifC03c": verifC03c, "verifC12b": verifC12b,
	} {
		verifEntries[n] = f
	}
}

func verifC08b() { // a value cached through a child, then the child provides the key itself
	verifRunProfile(&vProfile{name: "C08b", clauses: vC08,
		maxScopes: 2, nRegs: 1, maxParams: 0, maxResults: 1, pForms: 1, rForms: 1, names: 1, export: true,
		faults: 1, nInvokes: 3, invParams: 1, lateRegs: 1, lateAfter: 1})
}

func verifC09c() { // duplicates through Export from a child scope
	verifRunProfile(&vProfile{name: "C09c", clauses: vC09,
		maxScopes: 2, nRegs: 2, maxParams: 0, maxResults: 1, pForms: 1, rForms: 1, names: 2, export: true,
		faults: 1, nInvokes: 1, invParams: 1})
}

func verifC10c() { // group members provided As interfaces
	verifRunProfile(&vProfile{name: "C10c", clauses: vC10,
		maxScopes: 1, nRegs: 2, maxParams: 0, maxResults: 1, pForms: 2, rForms: 1, names: 1, groups: true, as: true,
		faults: 1, nInvokes: 2, invParams: 1})
}

func verifC11c() { // three fields: two soft groups around a hard dependency
	verifRunProfile(&vProfile{name: "C11c", clauses: vC11,
		maxScopes: 1, nRegs: 1, maxParams: 0, maxResults: 2, pForms: 2, rForms: 2, names: 1, groups: true, soft: true,
		faults: 1, nInvokes: 1, invParams: 3, objOnly: true})
}

func verifC13b() { // a failed Invoke, a registration, the same Invoke again
	verifRunProfile(&vProfile{name: "C13b", clauses: append([]string{"C04.ok", "C04.err"}, vC13...),
		maxScopes: 1, nRegs: 1, maxParams: 1, maxResults: 1, pForms: 1, rForms: 1, names: 1,
		faults: 1, nInvokes: 2, invParams: 1, lateRegs: 1, distinct: true})
}

func init() {
	for n, f := range map[string]func(){
		"verifC08b": verifC08b, "verifC09c": verifC09c, "verifC10c": verifC10c, "verifC11c": verifC11c, "verifC13b": verifC13b,
	} {
		verifEntries[n] = f
	}
}

func verifC12c() { // decorated value groups and decorators with two keys / extra dependency / no input
	verifRunProfile(&vProfile{name: "C12c", clauses: append([]string{"C01.arg"}, vC12...),
		maxScopes: 2, nRegs: 2, maxParams: 0, maxResults: 1, pForms: 2, rForms: 2, names: 1, groups: true, decorators: 1, decor2: true,
		faults: 1, nInvokes: 1, invParams: 1})
}

func init() { verifEntries["verifC12c"] = verifC12c }
