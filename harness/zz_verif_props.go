//go:build verif

package dig

// Entry points: one per property and tier.  A property = a profile (bounds)
// plus the set of clause prefixes it owns.

var verifTier = "quick"

func verifRunProfile(p *vProfile) {
	h := &vHist{p: p}
	h.run()
}

func verifC01() {
	verifRunProfile(&vProfile{
		name: "C01", clauses: []string{"C01."},
		maxScopes: 2, nRegs: 2, maxParams: 1, maxResults: 1,
		pForms: 2, rForms: 1, names: 2, optional: true, export: true,
		faults: 1, nInvokes: 1, invParams: 2, distinct: true,
	})
}

func init() {
	verifEntries["verifC01"] = verifC01
}
