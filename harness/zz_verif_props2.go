//go:build verif

package dig

// Profiles added after the second round of seeded changes.

func verifC02e() { // user functions that re-enter the container while they run
	verifRunProfile(&vProfile{name: "C02e", clauses: []string{"C02.", "C05s.nopanic"},
		maxScopes: 1, nRegs: 2, maxParams: 1, maxResults: 1, pForms: 1, rForms: 1, names: 1, decorators: 1, reenter: true,
		faults: 1, nInvokes: 2, invParams: 1, distinct: true, noMissing: true})
}

func verifC05se() { // re-entering constructors and decorators, defer free, groups
	verifRunProfile(&vProfile{name: "C05se", clauses: []string{"C05s.nopanic", "C02.reentry"},
		maxScopes: 2, nRegs: 2, maxParams: 1, maxResults: 1, pForms: 1, rForms: 1, names: 1, decorators: 1, reenter: true, deferOpt: 2,
		faults: 1, nInvokes: 1, invParams: 1, distinct: true})
}

func verifC07c() { // error results that are not the last result
	verifRunProfile(&vProfile{name: "C07c", clauses: vC07,
		maxScopes: 1, nRegs: 2, maxParams: 1, maxResults: 1, pForms: 1, rForms: 1, names: 1, decorators: 1, errPos: true,
		faults: 2, nInvokes: 2, invParams: 1, distinct: true, noMissing: true})
}

func verifC13c() { // panics in child scopes under every combination of container options
	verifRunProfile(&vProfile{name: "C13c", clauses: vC13,
		maxScopes: 2, nRegs: 1, maxParams: 0, maxResults: 1, pForms: 1, rForms: 1, names: 1, decorators: 1,
		faults: 3, recoverOpt: 2, deferOpt: 2, nInvokes: 1, invParams: 1, distinct: true})
}

func verifC14b() { // failing value-group decorators; every failed Invoke is visualized
	verifRunProfile(&vProfile{name: "C14b", clauses: []string{"C14."},
		maxScopes: 1, nRegs: 2, maxParams: 0, maxResults: 1, pForms: 2, rForms: 2, names: 1, groups: true, decorators: 1, decor2: true,
		faults: 2, nInvokes: 1, invParams: 1, quietCalls: true, visErr: true})
}

func verifC14c() { // a failing decorator alone (no constructor shares its code pointer)
	verifRunProfile(&vProfile{name: "C14c", clauses: []string{"C14."},
		maxScopes: 2, nRegs: 1, maxParams: 0, maxResults: 1, pForms: 2, rForms: 2, names: 1, groups: true, decorators: 1, decor2: true,
		faults: 2, nInvokes: 1, invParams: 1, quietCalls: true, visErr: true})
}

func verifC17c() { // decorators with two keys / an extra dependency, two Invokes
	verifC17run(&vProfile{name: "C17c", clauses: []string{"C17."},
		maxScopes: 1, nRegs: 2, maxParams: 0, maxResults: 1, pForms: 1, rForms: 1, names: 1, decorators: 1, decor2: true, decor3: true,
		faults: 1, nInvokes: 2, invParams: 1})
}

func verifC11d() { // soft groups consumed from a child scope that has feeders of its own
	verifRunProfile(&vProfile{name: "C11d", clauses: vC11,
		maxScopes: 2, nRegs: 2, maxParams: 0, maxResults: 1, pForms: 2, rForms: 2, names: 1, groups: true, soft: true,
		faults: 1, nInvokes: 2, invParams: 1, objOnly: true})
}

func verifC15c() { // two results with names: tags of one field must not leak into the next
	verifC15run(&vProfile{name: "C15c", clauses: []string{"C15."},
		maxScopes: 1, nRegs: 1, maxParams: 0, maxResults: 2, pForms: 2, rForms: 2, names: 2,
		faults: 1, nInvokes: 1, invParams: 2})
}

func verifC16d() { // three scopes, created at any time; the Invoke only triggers verification
	verifC16run(&vProfile{name: "C16d", clauses: []string{"C16."},
		maxScopes: 3, nRegs: 3, maxParams: 1, maxResults: 1, pForms: 1, rForms: 1, names: 1, lateScopes: true,
		faults: 1, nInvokes: 1, invParams: 0, distinct: true})
}

func verifC10d() { // flatten results and several scopes
	verifRunProfile(&vProfile{name: "C10d", clauses: vC10,
		maxScopes: 2, nRegs: 2, maxParams: 0, maxResults: 1, pForms: 2, rForms: 2, names: 1, groups: true, flatten: true,
		faults: 1, nInvokes: 1, invParams: 1})
}

func verifC20c() { // callbacks of functions whose error result comes first
	verifC20run(&vProfile{name: "C20c", clauses: []string{"C20."},
		maxScopes: 1, nRegs: 2, maxParams: 1, maxResults: 1, pForms: 1, rForms: 1, names: 1, callbacks: true, decorators: 1, errPos: true,
		faults: 2, recoverOpt: 0, nInvokes: 2, invParams: 1, distinct: true, noMissing: true})
}

func verifC01e() { // two decorators of one key at two levels, resolved twice
	verifRunProfile(&vProfile{name: "C01e", clauses: vC01,
		maxScopes: 2, nRegs: 3, maxParams: 0, maxResults: 1, pForms: 1, rForms: 1, names: 1, decorators: 2, decor2: true,
		regKinds: []int{vCtor, vDecor, vDecor}, faults: 1, nInvokes: 2, invParams: 1, noMissing: true})
}

func verifC01f() { // exported constructors with scope-private dependencies, optional consumers
	verifRunProfile(&vProfile{name: "C01f", clauses: vC01,
		maxScopes: 2, nRegs: 2, maxParams: 1, maxResults: 1, pForms: 2, rForms: 1, names: 1, optional: true, export: true,
		faults: 1, nInvokes: 1, invParams: 1, distinct: true, objOnly: true})
}

func verifC03d() { // decorators at two levels: a second resolution runs nothing new
	verifRunProfile(&vProfile{name: "C03d", clauses: vC03,
		maxScopes: 2, nRegs: 3, maxParams: 0, maxResults: 1, pForms: 1, rForms: 1, names: 1, decorators: 2, decor2: true,
		regKinds: []int{vCtor, vDecor, vDecor}, faults: 1, nInvokes: 2, invParams: 1, noMissing: true})
}

func verifC04d() { // a failed Invoke, the missing registration, the same Invoke again
	verifRunProfile(&vProfile{name: "C04d", clauses: vC04,
		maxScopes: 1, nRegs: 1, maxParams: 1, maxResults: 1, pForms: 2, rForms: 1, names: 1, optional: true,
		faults: 1, nInvokes: 2, invParams: 1, lateRegs: 1, distinct: true})
}

func init() {
	for n, f := range map[string]func(){
		"verifC01e": verifC01e, "verifC01f": verifC01f, "verifC03d": verifC03d, "verifC04d": verifC04d,
		"verifC02e": verifC02e, "verifC05se": verifC05se, "verifC07c": verifC07c, "verifC13c": verifC13c, "verifC14b": verifC14b,
		"verifC17c": verifC17c, "verifC11d": verifC11d, "verifC15c": verifC15c, "verifC16d": verifC16d, "verifC10d": verifC10d,
		"verifC20c": verifC20c, "verifC14c": verifC14c,
	} {
		verifEntries[n] = f
	}
}

func verifC12d() { // a decorator that panics (no RecoverFromPanics) is applied again by the next Invoke
	verifRunProfile(&vProfile{name: "C12d", clauses: vC12,
		maxScopes: 1, nRegs: 2, maxParams: 0, maxResults: 1, pForms: 1, rForms: 1, names: 1, decorators: 1,
		faults: 3, recoverOpt: 2, nInvokes: 2, invParams: 1, distinct: true, noMissing: true})
}

func verifC06c() { // rejected decorators with two keys or an extra dependency
	verifC06run(&vProfile{name: "C06c", clauses: []string{"C06."},
		maxScopes: 1, nRegs: 1, maxParams: 0, maxResults: 1, pForms: 1, rForms: 1, names: 1, decorators: 2, decor2: true,
		regKinds: []int{vDecor, vDecor}, faults: 1, nInvokes: 1, invParams: 1}, false)
}

func init() {
	verifEntries["verifC12d"] = verifC12d
	verifEntries["verifC06c"] = verifC06c
}

func verifC16e() { // three registrations with group edges over two scopes created first: order only
	verifC16run(&vProfile{name: "C16e", clauses: []string{"C16."},
		maxScopes: 2, nRegs: 3, maxParams: 1, maxResults: 1, pForms: 2, rForms: 1, names: 1, groups: true, objOnly: true, scopesFirst: true,
		faults: 1, nInvokes: 1, invParams: 0})
}

func verifC16f() { // three scopes created at any time, registration order kept: scope timing only
	verifC16run(&vProfile{name: "C16f", clauses: []string{"C16."},
		maxScopes: 3, nRegs: 3, maxParams: 1, maxResults: 1, pForms: 1, rForms: 1, names: 1, lateScopes: true, noPerm: true,
		faults: 1, nInvokes: 1, invParams: 0, distinct: true})
}

func init() {
	verifEntries["verifC16e"] = verifC16e
	verifEntries["verifC16f"] = verifC16f
}

func verifC05sf() { // deferred verification: a cycle closed after a verified Invoke, through optional / group edges
	verifRunProfile(&vProfile{name: "C05sf", clauses: vC05s,
		maxScopes: 1, nRegs: 1, maxParams: 1, maxResults: 1, pForms: 2, rForms: 1, names: 1, groups: true, optional: true, deferOpt: 1,
		faults: 1, nInvokes: 2, invParams: 1, lateRegs: 1, objOnly: true})
}

func init() { verifEntries["verifC05sf"] = verifC05sf }

// ---- profiles added after the third round of seeded changes -----------------------------------

func verifC03e() { // exported constructors with scope-private dependencies behind optional fields
	verifRunProfile(&vProfile{name: "C03e", clauses: vC03,
		maxScopes: 2, nRegs: 2, maxParams: 1, maxResults: 1, pForms: 2, rForms: 1, names: 1, optional: true, export: true,
		faults: 1, nInvokes: 1, invParams: 1, distinct: true, objOnly: true})
}

func verifC13d() { // panicking decorators / constructors with callbacks registered
	verifRunProfile(&vProfile{name: "C13d", clauses: vC13,
		maxScopes: 1, nRegs: 2, maxParams: 0, maxResults: 1, pForms: 1, rForms: 1, names: 1, decorators: 1, callbacks: true,
		faults: 3, recoverOpt: 2, nInvokes: 1, invParams: 1, distinct: true})
}

func verifC06d() { // two accepted registrations over two scopes, the rejected candidate, a later registration
	verifC06run(&vProfile{name: "C06d", clauses: []string{"C06."},
		maxScopes: 2, nRegs: 2, maxParams: 1, maxResults: 1, pForms: 1, rForms: 1, names: 1, scopesFirst: true,
		faults: 1, nInvokes: 1, invParams: 0, lateRegs: 1, lateFirst: true, distinct: true}, false)
}

func verifC06e() { // value groups: a rejected feeder must not disturb the accepted ones
	verifC06run(&vProfile{name: "C06e", clauses: []string{"C06."},
		maxScopes: 1, nRegs: 1, maxParams: 1, maxResults: 1, pForms: 2, rForms: 1, names: 1, groups: true, objOnly: true,
		faults: 1, nInvokes: 1, invParams: 1}, false)
}

func verifC01g() { // a decorator with an extra dependency that a descendant scope shadows
	verifRunProfile(&vProfile{name: "C01g", clauses: vC01,
		maxScopes: 2, nRegs: 4, maxParams: 0, maxResults: 1, pForms: 1, rForms: 1, names: 1, decorators: 1, decor2: true, scopesFirst: true,
		regKinds: []int{vCtor, vCtor, vCtor, vDecor}, faults: 1, nInvokes: 1, invParams: 1, noMissing: true})
}

func verifC16g() { // Export and private registrations of one key in either order
	verifC16run(&vProfile{name: "C16g", clauses: []string{"C16."},
		maxScopes: 2, nRegs: 2, maxParams: 0, maxResults: 1, pForms: 1, rForms: 1, names: 1, export: true,
		faults: 1, nInvokes: 1, invParams: 1})
}

func verifC15d() { // one constructor with two same-typed parameters told apart by name only (self-cycles through either)
	verifC15run(&vProfile{name: "C15d", clauses: []string{"C15."},
		maxScopes: 1, nRegs: 1, maxParams: 2, maxResults: 1, pForms: 2, rForms: 2, names: 2,
		faults: 1, nInvokes: 1, invParams: 0})
}

func verifC07d() { // a failing dependency of a decorator below an optional consumer
	verifRunProfile(&vProfile{name: "C07d", clauses: append([]string{"C13.root"}, vC07...),
		maxScopes: 1, nRegs: 4, maxParams: 1, maxResults: 1, pForms: 2, rForms: 1, names: 1, optional: true, decorators: 1, decor2: true,
		regKinds: []int{vCtor, vCtor, vDecor, vCtor}, faults: 2, nInvokes: 1, invParams: 1, distinct: true, objOnly: true, noMissing: true,
		allAccepted: true, strictDecor: true})
}

func verifC10e() { // group names that differ by white space, case or a common prefix only
	verifRunProfile(&vProfile{name: "C10e", clauses: vC10,
		maxScopes: 1, nRegs: 2, maxParams: 0, maxResults: 1, pForms: 2, rForms: 2, names: 1, groups: true, groupNames: 4,
		faults: 1, nInvokes: 1, invParams: 1})
}

func verifC11e() { // a hard consumer of the group registered before the soft consumer asks
	verifRunProfile(&vProfile{name: "C11e", clauses: vC11,
		maxScopes: 1, nRegs: 2, maxParams: 1, maxResults: 1, pForms: 2, rForms: 2, names: 1, groups: true, soft: true, objOnly: true,
		faults: 1, nInvokes: 1, invParams: 1})
}

func verifC02f() { // group feeders with dependencies decorated by consumers of the group
	verifRunProfile(&vProfile{name: "C02f", clauses: append([]string{"C05s.nopanic"}, vC02...),
		maxScopes: 1, nRegs: 3, maxParams: 1, maxResults: 1, pForms: 2, rForms: 1, names: 1, groups: true, decorators: 1, decor2: true, objOnly: true,
		regKinds: []int{vCtor, vCtor, vDecor}, faults: 1, nInvokes: 1, invParams: 1})
}

func verifC12e() { // a key provided and decorated above, provided again below
	verifRunProfile(&vProfile{name: "C12e", clauses: append([]string{"C01.arg"}, vC12...),
		maxScopes: 2, nRegs: 3, maxParams: 0, maxResults: 1, pForms: 1, rForms: 1, names: 1, decorators: 1,
		regKinds: []int{vCtor, vDecor, vCtor}, faults: 1, nInvokes: 2, invParams: 1, noMissing: true})
}

func verifC09d() { // group feeders around a registration rejected for a cycle
	verifRunProfile(&vProfile{name: "C09d", clauses: append([]string{"C10.all", "C10.count", "C10.foreign"}, vC09...),
		maxScopes: 1, nRegs: 2, maxParams: 1, maxResults: 1, pForms: 2, rForms: 1, names: 1, groups: true, objOnly: true,
		faults: 1, nInvokes: 1, invParams: 1})
}

func init() {
	for n, f := range map[string]func(){
		"verifC03e": verifC03e, "verifC13d": verifC13d, "verifC06d": verifC06d, "verifC06e": verifC06e, "verifC01g": verifC01g,
		"verifC16g": verifC16g, "verifC15d": verifC15d, "verifC07d": verifC07d, "verifC10e": verifC10e, "verifC11e": verifC11e,
		"verifC02f": verifC02f, "verifC12e": verifC12e, "verifC09d": verifC09d,
	} {
		verifEntries[n] = f
	}
}

func verifC04e() { // an optional consumer above a decorator whose dependency fails: the error is not hidden
	verifRunProfile(&vProfile{name: "C04e", clauses: vC04,
		maxScopes: 1, nRegs: 4, maxParams: 1, maxResults: 1, pForms: 2, rForms: 1, names: 1, optional: true, decorators: 1, decor2: true,
		regKinds: []int{vCtor, vCtor, vDecor, vCtor}, faults: 2, nInvokes: 1, invParams: 1, distinct: true, objOnly: true, noMissing: true,
		allAccepted: true, strictDecor: true})
}

func init() { verifEntries["verifC04e"] = verifC04e }

// ---- profiles added after the fourth round of seeded changes ----------------------------------

func verifC13e() { // error results declared as a concrete error type (zero value = non-nil error)
	verifRunProfile(&vProfile{name: "C13e", clauses: append([]string{"C07.cause", "C07.nodeliver"}, vC13...),
		maxScopes: 1, nRegs: 2, maxParams: 1, maxResults: 1, pForms: 1, rForms: 1, names: 1, decorators: 1, errConcrete: true, errPos: true,
		faults: 2, nInvokes: 1, invParams: 1, distinct: true, noMissing: true})
}

func verifC07e() { // the same under the C07 clauses, two Invokes
	verifRunProfile(&vProfile{name: "C07e", clauses: vC07,
		maxScopes: 1, nRegs: 2, maxParams: 1, maxResults: 1, pForms: 1, rForms: 1, names: 1, decorators: 1, errConcrete: true,
		faults: 2, nInvokes: 2, invParams: 1, distinct: true, noMissing: true})
}

func verifC17d() { // DryRun combined with RecoverFromPanics / DeferAcyclicVerification
	verifC17run(&vProfile{name: "C17d", clauses: []string{"C17."},
		maxScopes: 2, nRegs: 2, maxParams: 1, maxResults: 1, pForms: 1, rForms: 1, names: 1, decorators: 1, recoverOpt: 2, deferOpt: 2,
		faults: 1, nInvokes: 1, invParams: 1})
}

func verifC09e() { // As combined with result objects: the same Out struct with different As lists
	verifRunProfile(&vProfile{name: "C09e", clauses: vC09,
		maxScopes: 2, nRegs: 2, maxParams: 0, maxResults: 1, pForms: 2, rForms: 2, names: 1, as: true, asObj: true,
		faults: 1, nInvokes: 1, invParams: 1})
}

func verifC08c() { // optional dependencies provided by ancestors / exported from elsewhere
	verifRunProfile(&vProfile{name: "C08c", clauses: append([]string{"C04.zero", "C04.opt"}, vC08...),
		maxScopes: 3, nRegs: 1, maxParams: 0, maxResults: 1, pForms: 2, rForms: 1, names: 1, optional: true, export: true, objOnly: true,
		faults: 1, nInvokes: 2, invParams: 1, lateScopes: true})
}

func verifC01h() { // exported and root constructors of one key (duplicates through Export are rejected)
	verifRunProfile(&vProfile{name: "C01h", clauses: vC01,
		maxScopes: 2, nRegs: 2, maxParams: 0, maxResults: 1, pForms: 1, rForms: 1, names: 2, export: true,
		faults: 1, nInvokes: 2, invParams: 1, noMissing: true})
}

func verifC04f() { // nested parameter objects with missing and optional fields
	verifRunProfile(&vProfile{name: "C04f", clauses: vC04,
		maxScopes: 1, nRegs: 2, maxParams: 1, maxResults: 1, pForms: 3, rForms: 1, names: 1, optional: true,
		faults: 1, nInvokes: 1, invParams: 1, distinct: true})
}

func verifC02g() { // a group decorator that has run, then another feeder of the group, then the group again
	verifRunProfile(&vProfile{name: "C02g", clauses: append([]string{"C12.once"}, vC02...),
		maxScopes: 1, nRegs: 2, maxParams: 0, maxResults: 1, pForms: 2, rForms: 2, names: 1, groups: true, decorators: 1, decor2: true,
		regKinds: []int{vCtor, vDecor}, faults: 1, nInvokes: 2, invParams: 1, lateRegs: 1, objOnly: true})
}

func verifC12f() { // a group decorated at two levels and an exported consumer below
	verifRunProfile(&vProfile{name: "C12f", clauses: append([]string{"C01.arg"}, vC12...),
		maxScopes: 2, nRegs: 3, maxParams: 1, maxResults: 1, pForms: 2, rForms: 2, names: 1, groups: true, decorators: 2, export: true,
		regKinds: []int{vDecor, vDecor, vCtor}, faults: 1, nInvokes: 1, invParams: 1, objOnly: true, scopesFirst: true})
}

func verifC11f() { // a rejected two-key decorator (group first) must not be found by a soft consumer
	verifRunProfile(&vProfile{name: "C11f", clauses: append([]string{"C06.norun"}, vC11...),
		maxScopes: 1, nRegs: 3, maxParams: 0, maxResults: 1, pForms: 2, rForms: 2, names: 1, groups: true, soft: true, decorators: 2, decor2: true,
		regKinds: []int{vCtor, vDecor, vDecor}, faults: 1, nInvokes: 1, invParams: 1, objOnly: true})
}

func init() {
	for n, f := range map[string]func(){
		"verifC13e": verifC13e, "verifC07e": verifC07e, "verifC17d": verifC17d, "verifC09e": verifC09e, "verifC08c": verifC08c,
		"verifC01h": verifC01h, "verifC04f": verifC04f, "verifC02g": verifC02g, "verifC12f": verifC12f, "verifC11f": verifC11f,
	} {
		verifEntries[n] = f
	}
}

func verifC12g() { // decorator in the root, decorator and (exported) constructor in the child; extra dependencies / second keys / no input
	verifRunProfile(&vProfile{name: "C12g", clauses: append([]string{"C01.arg"}, vC12...),
		maxScopes: 2, nRegs: 3, maxParams: 1, maxResults: 1, pForms: 2, rForms: 2, names: 1, groups: true, decorators: 2, decor2: true, export: true,
		regKinds: []int{vDecor, vDecor, vCtor}, regScopes: []int{0, 1, 1}, faults: 1, nInvokes: 1, invParams: 1, objOnly: true, scopesFirst: true})
}

func init() { verifEntries["verifC12g"] = verifC12g }

func verifC10f() { // a feeder with a second (single) result that a decorator of the feeder's dependency needs
	verifRunProfile(&vProfile{name: "C10f", clauses: vC10,
		maxScopes: 1, nRegs: 3, maxParams: 1, maxResults: 2, pForms: 2, rForms: 2, names: 1, groups: true, decorators: 1, decor2: true, objOnly: true,
		regKinds: []int{vCtor, vCtor, vDecor}, regParams: []int{0, 1}, regResults: []int{1, 2}, faults: 1, nInvokes: 1, invParams: 1})
}

func init() { verifEntries["verifC10f"] = verifC10f }

func verifC05sg() { // four constructors; a scope created after the parent's graph holds three nodes
	verifRunProfile(&vProfile{name: "C05sg", clauses: vC05s,
		maxScopes: 2, nRegs: 4, maxParams: 1, maxResults: 1, pForms: 2, rForms: 1, names: 1, groups: true, objOnly: true,
		regParams: []int{1, 0, 1, 1}, faults: 1, nInvokes: 1, invParams: 0, distinct: true})
}

func init() { verifEntries["verifC05sg"] = verifC05sg }

// ---- profiles added after the fifth round of seeded changes -----------------------------------

func verifC03f() { // group members provided As several interfaces: a consumer of one interface runs the feeder
	verifRunProfile(&vProfile{name: "C03f", clauses: vC03,
		maxScopes: 1, nRegs: 2, maxParams: 0, maxResults: 1, pForms: 2, rForms: 1, names: 1, groups: true, as: true,
		faults: 1, nInvokes: 2, invParams: 1})
}

func verifC05sh() { // exported constructors with value-group parameters (their group node lives in every graph)
	verifRunProfile(&vProfile{name: "C05sh", clauses: vC05s,
		maxScopes: 2, nRegs: 2, maxParams: 1, maxResults: 1, pForms: 2, rForms: 1, names: 1, groups: true, export: true, objOnly: true,
		faults: 1, nInvokes: 1, invParams: 1})
}

func verifC06f() { // candidates with two results (the same group key twice) next to accepted feeders
	verifC06run(&vProfile{name: "C06f", clauses: []string{"C06."},
		maxScopes: 1, nRegs: 1, maxParams: 1, maxResults: 2, pForms: 2, rForms: 2, names: 1, groups: true, objOnly: true,
		regResults: []int{1, 2}, faults: 1, nInvokes: 1, invParams: 1}, false)
}

func verifC10g() { // feeders with dependencies of their own that a descendant scope shadows or extends
	verifRunProfile(&vProfile{name: "C10g", clauses: append([]string{"C01.arg"}, vC10...),
		maxScopes: 2, nRegs: 3, maxParams: 1, maxResults: 1, pForms: 2, rForms: 2, names: 1, groups: true, objOnly: true, scopesFirst: true,
		regParams: []int{1, 0, 0}, regScopes: []int{0, 0, 1}, faults: 1, nInvokes: 1, invParams: 1})
}

func verifC12h() { // a group decorated above, resolved from a leaf, then decorated in between, resolved again
	verifRunProfile(&vProfile{name: "C12h", clauses: vC12,
		maxScopes: 3, nRegs: 1, maxParams: 0, maxResults: 1, pForms: 2, rForms: 2, names: 1, groups: true, decorators: 2, scopesFirst: true,
		regKinds: []int{vDecor, vDecor}, faults: 1, nInvokes: 2, invParams: 1, lateRegs: 1, objOnly: true})
}

func verifC15f() { // failing constructors: the same functions run in every encoding
	verifC15run(&vProfile{name: "C15f", clauses: []string{"C15."},
		maxScopes: 1, nRegs: 2, maxParams: 0, maxResults: 1, pForms: 1, rForms: 1, names: 1, altUniform: true,
		faults: 2, nInvokes: 1, invParams: 2})
}

func verifC17e() { // variadic functions under DryRun
	verifC17run(&vProfile{name: "C17e", clauses: []string{"C17."},
		maxScopes: 1, nRegs: 2, maxParams: 1, maxResults: 1, pForms: 1, rForms: 1, names: 1, decorators: 1, variadic: true,
		faults: 1, nInvokes: 1, invParams: 1})
}

func verifC01i() { // a value first built through a descendant, then the descendant provides the key itself
	verifRunProfile(&vProfile{name: "C01i", clauses: vC01,
		maxScopes: 2, nRegs: 1, maxParams: 0, maxResults: 1, pForms: 1, rForms: 1, names: 1, export: true,
		faults: 1, nInvokes: 3, invParams: 1, lateRegs: 1, lateAfter: 1})
}

func verifC02h() { // duplicates through Export: two instances of one key must never be observable
	verifRunProfile(&vProfile{name: "C02h", clauses: append([]string{"C01.arg"}, vC02...),
		maxScopes: 2, nRegs: 1, maxParams: 0, maxResults: 2, pForms: 1, rForms: 1, names: 1, export: true, scopesFirst: true,
		regResults: []int{1, 2}, faults: 1, nInvokes: 3, invParams: 1, lateRegs: 1})
}

func verifC08d() { // value groups with flatten members across scopes under the visibility clauses
	verifRunProfile(&vProfile{name: "C08d", clauses: append([]string{"C10.all", "C10.count", "C10.foreign"}, vC08...),
		maxScopes: 2, nRegs: 2, maxParams: 0, maxResults: 1, pForms: 2, rForms: 2, names: 1, groups: true, flatten: true,
		faults: 1, nInvokes: 1, invParams: 1})
}

func verifC13f() { // a failing dependency of a decorator below an optional consumer, under the C13 clauses
	verifRunProfile(&vProfile{name: "C13f", clauses: vC13,
		maxScopes: 1, nRegs: 4, maxParams: 1, maxResults: 1, pForms: 2, rForms: 1, names: 1, optional: true, decorators: 1, decor2: true,
		regKinds: []int{vCtor, vCtor, vDecor, vCtor}, faults: 2, nInvokes: 1, invParams: 1, distinct: true, objOnly: true, noMissing: true,
		allAccepted: true, strictDecor: true})
}

func init() {
	for n, f := range map[string]func(){
		"verifC03f": verifC03f, "verifC05sh": verifC05sh, "verifC06f": verifC06f, "verifC10g": verifC10g, "verifC12h": verifC12h,
		"verifC15f": verifC15f, "verifC17e": verifC17e, "verifC01i": verifC01i, "verifC02h": verifC02h, "verifC08d": verifC08d, "verifC13f": verifC13f,
	} {
		verifEntries[n] = f
	}
}

func verifC11g() { // a value decorator with a soft group parameter above a scope that decorates that group
	verifRunProfile(&vProfile{name: "C11g", clauses: append([]string{"C01.arg"}, vC11...),
		maxScopes: 2, nRegs: 4, maxParams: 0, maxResults: 1, pForms: 2, rForms: 2, names: 1, groups: true, soft: true, decorators: 2, decor2: true, decorSoft: true,
		regKinds: []int{vCtor, vCtor, vDecor, vDecor}, regScopes: []int{0, 0, 0, 1}, scopesFirst: true, faults: 1, nInvokes: 1, invParams: 1, objOnly: true})
}

func verifC11h() { // C11g with the decorator shapes fixed: a value decorator with a soft group parameter in the root, a plain decorator below
	verifRunProfile(&vProfile{name: "C11h", clauses: append([]string{"C01.arg"}, vC11...),
		maxScopes: 2, nRegs: 4, maxParams: 0, maxResults: 1, pForms: 2, rForms: 2, names: 1, groups: true, soft: true, decorators: 2, decor2: true, decorSoft: true,
		regKinds: []int{vCtor, vCtor, vDecor, vDecor}, regScopes: []int{0, 0, 0, 1}, regDShape: []int{-1, -1, 5, 0}, scopesFirst: true,
		faults: 1, nInvokes: 1, invParams: 1, objOnly: true, allAccepted: true})
}

func verifC11i() { // C11a with nested parameter objects: a soft group field followed only by a nested dig.In field
	verifRunProfile(&vProfile{name: "C11i", clauses: vC11,
		maxScopes: 1, nRegs: 1, maxParams: 0, maxResults: 2, pForms: 3, rForms: 2, names: 1, groups: true, soft: true, softOuter: true, nestLast: true,
		faults: 1, nInvokes: 1, invParams: 2})
}

func init() {
	verifEntries["verifC11g"] = verifC11g
	verifEntries["verifC11h"] = verifC11h
	verifEntries["verifC11i"] = verifC11i
}

func verifC03g() { // a value group decorated at two levels: an outer decorator the inner one does not consume is not run
	verifRunProfile(&vProfile{name: "C03g", clauses: vC03,
		maxScopes: 2, nRegs: 3, maxParams: 0, maxResults: 1, pForms: 2, rForms: 2, names: 1, groups: true, soft: true, decorators: 2, decor2: true,
		regKinds: []int{vCtor, vDecor, vDecor}, regScopes: []int{0, 0, 1}, scopesFirst: true, faults: 1, nInvokes: 1, invParams: 1, objOnly: true})
}

func init() { verifEntries["verifC03g"] = verifC03g }

func verifC16h() { // a scope created when its parent's graph already holds several nodes, then registrations on both sides
	verifC16run(&vProfile{name: "C16h", clauses: []string{"C16."},
		maxScopes: 2, nRegs: 4, maxParams: 1, maxResults: 1, pForms: 2, rForms: 1, names: 1, groups: true, objOnly: true, noPerm: true,
		regParams: []int{2, 0, 1, 1}, regScopes: []int{0, 1, 0, 1}, faults: 1, nInvokes: 1, invParams: 0, twoSided: true})
}

func verifC05si() { // the same skeleton under the cycle clauses (no false cycle, no missed cycle)
	verifRunProfile(&vProfile{name: "C05si", clauses: vC05s,
		maxScopes: 2, nRegs: 4, maxParams: 1, maxResults: 1, pForms: 2, rForms: 1, names: 1, groups: true, objOnly: true,
		regParams: []int{2, 0, 1, 1}, regScopes: []int{0, 1, 0, 1}, faults: 1, nInvokes: 1, invParams: 0, distinct: true})
}

func init() {
	verifEntries["verifC16h"] = verifC16h
	verifEntries["verifC05si"] = verifC05si
}
