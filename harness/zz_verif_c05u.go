//go:build verif

package dig

import (
	"strconv"

	"go.uber.org/dig/internal/graph"
)

// C05 (unit part): internal/graph.IsAcyclic on every digraph with up to N
// nodes, and graphHolder.Snapshot/Rollback.

type verifGraph struct {
	n   int
	adj [][]int // 0/1, symbolic
	ask int     // number of EdgesFrom calls
}

func (g *verifGraph) Order() int { return g.n }

func (g *verifGraph) EdgesFrom(u int) []int {
	g.ask++
	var r []int
	for v := 0; v < g.n; v++ {
		if g.adj[u][v] != 0 {
			r = append(r, v)
		}
	}
	return r
}

func verifC05u() { verifC05uRun(4) }

func verifC05uRun(maxN int) {
	n := verifNdInt("n", maxN+1)
	g := &verifGraph{n: n}
	g.adj = make([][]int, n)
	for u := 0; u < n; u++ {
		g.adj[u] = make([]int, n)
		for v := 0; v < n; v++ {
			g.adj[u][v] = verifNdInt("e"+strconv.Itoa(u)+"_"+strconv.Itoa(v), 2)
		}
	}
	// oracle: reflexive-free transitive closure on the same bits, without
	// branching (so undecided bits stay symbolic)
	reach := make([][]int, n)
	for i := range reach {
		reach[i] = make([]int, n)
		copy(reach[i], g.adj[i])
	}
	for k := 0; k < n; k++ {
		for i := 0; i < n; i++ {
			for j := 0; j < n; j++ {
				reach[i][j] = reach[i][j] | (reach[i][k] & reach[k][j])
			}
		}
	}
	cyclic := 0
	for i := 0; i < n; i++ {
		cyclic = cyclic | reach[i][i]
	}

	ok, cycle := graph.IsAcyclic(g)
	verifObserve("ok=" + strconv.FormatBool(ok) + " len=" + strconv.Itoa(len(cycle)))
	if ok {
		verifWitness("acyclic")
		verifAssert("C05u.sound", cyclic == 0)
		verifAssert("C05u.nopath", len(cycle) == 0)
		return
	}
	verifWitness("cyclic")
	verifAssert("C05u.real", cyclic == 1)
	verifAssert("C05u.len", len(cycle) >= 2)
	if len(cycle) < 2 {
		return
	}
	verifAssert("C05u.closed", cycle[0] == cycle[len(cycle)-1])
	for i := 0; i+1 < len(cycle); i++ {
		a, b := cycle[i], cycle[i+1]
		inRange := a >= 0 && a < n && b >= 0 && b < n
		verifAssert("C05u.range", inRange)
		if !inRange {
			return
		}
		verifAssert("C05u.edge", g.adj[a][b] == 1)
	}
	if len(cycle) > 2 {
		verifWitness("cycle-len>=3")
	}
}

// verifT05u: the same over every digraph with up to 5 nodes (thorough tier).
func verifT05u() { verifC05uRun(5) }

func init() {
	verifEntries["verifC05u"] = verifC05u
	verifEntries["verifT05u"] = verifT05u
}
