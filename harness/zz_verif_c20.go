//go:build verif

package dig

import (
	"errors"
	"time"
)

// C20: callbacks fire once per execution with the true outcome; Runtime is the
// time spent inside the function only (symbolic clock readings).

func verifC20run(p *vProfile) {
	h := &vHist{p: p}
	w := &vWorld{name: "A", cur: -1}
	opts := h.options()
	if verifNdBool("dryflip") {
		opts = append(opts, DryRun(true), DryRun(false))
	}
	opts = append(opts, setClock(vClock{w}))
	w.c = New(opts...)
	w.scopes = []*Scope{w.c.scope}
	w.parent = []int{-1}
	w.clocked = true
	w.recover = h.wRecover
	h.w = w
	w.onCB = func(w *vWorld, r *vReg, ci CallbackInfo) {
		// exactly one callback per finished execution, after it finished
		done := 0
		for _, e := range r.execs {
			if e.done {
				done++
			}
		}
		h.assert("C20.count", len(r.cbs) == done && len(r.execs) == done)
		if len(r.cbs) > len(r.execs) {
			return
		}
		e := r.execs[len(r.cbs)-1]
		h.assert("C20.runtime", !w.badClock && ci.Runtime == time.Duration(e.tExit-e.tEnter))
		switch e.outcome {
		case vOK:
			h.assert("C20.error", ci.Error == nil)
			verifWitness("callback-ok")
		case vFail:
			rc := error(nil)
			if ci.Error != nil {
				rc = RootCause(ci.Error)
			}
			h.assert("C20.error", rc == error(e.err))
			verifWitness("callback-error")
		case vPanic:
			if w.recover {
				var pe PanicError
				h.assert("C20.error", ci.Error != nil && errors.As(ci.Error, &pe) && pe.Panic == interface{}(e.pval))
				verifWitness("callback-panic")
			}
		}
		if e.tExit != e.tEnter {
			verifWitness("callback-runtime")
		}
	}
	for _, step := range h.skeleton() {
		h.apply(w, step())
		h.assert("C20.runtime", !w.badClock)
		for _, r := range w.regs {
			if r.f.callback {
				h.assert("C20.count", len(r.cbs) == len(r.execs))
				if len(r.execs) == 0 && r.accepted {
					verifWitness("callback-silent")
				}
			} else {
				h.assert("C20.count", len(r.cbs) == 0)
			}
		}
	}
}

func verifC20a() {
	verifC20run(&vProfile{name: "C20a", clauses: []string{"C20."},
		maxScopes: 1, nRegs: 2, maxParams: 1, maxResults: 1, pForms: 1, rForms: 1, names: 1, callbacks: true,
		faults: 3, recoverOpt: 2, nInvokes: 2, invParams: 1, distinct: true})
}

func verifC20b() { // decorator callbacks
	verifC20run(&vProfile{name: "C20b", clauses: []string{"C20."},
		maxScopes: 2, nRegs: 2, maxParams: 1, maxResults: 1, pForms: 1, rForms: 1, names: 1, callbacks: true, decorators: 1,
		faults: 2, recoverOpt: 0, nInvokes: 1, invParams: 1, distinct: true, noMissing: true})
}

func init() {
	verifEntries["verifC20a"] = verifC20a
	verifEntries["verifC20b"] = verifC20b
}
