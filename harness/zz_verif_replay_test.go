//go:build verif

package dig

import (
	"encoding/json"
	"fmt"
	"os"
	"path/filepath"
	"runtime/debug"
	"sort"
	"strings"
	"testing"
)

// TestVerifReplay runs harness entry points natively on the concrete inputs
// recorded in replay files ($VERIF_REPLAY = file or directory) and prints one
// machine-readable line per file.
func TestVerifReplay(t *testing.T) {
	target := os.Getenv("VERIF_REPLAY")
	if target == "" {
		t.Skip("VERIF_REPLAY not set")
	}
	debug.SetMaxStack(64 << 20)
	var files []string
	if st, err := os.Stat(target); err == nil && st.IsDir() {
		m, _ := filepath.Glob(filepath.Join(target, "*.json"))
		sort.Strings(m)
		files = m
	} else {
		files = []string{target}
	}
	for _, f := range files {
		res := verifReplayOne(f)
		b, _ := json.Marshal(res)
		fmt.Printf("VERIF-REPLAY %s\n", b)
	}
}

type verifReplayResult struct {
	File     string   `json:"file"`
	Status   string   `json:"status"` // done | assume | diverged | panic | error
	Detail   string   `json:"detail,omitempty"`
	Failed   []string `json:"failed"`
	Observes []string `json:"observes"`
	Witness  []string `json:"witness"`
	Unused   int      `json:"unused"`
}

func verifReplayOne(path string) (res verifReplayResult) {
	res.File = path
	if err := verifLoadReplay(path); err != nil {
		res.Status, res.Detail = "error", err.Error()
		return
	}
	entry := verifEntries[verifRT.file.Entry]
	if entry == nil {
		res.Status, res.Detail = "error", "unknown entry "+verifRT.file.Entry
		return
	}
	defer func() {
		res.Failed = verifRT.failed
		res.Observes = verifRT.observes
		res.Witness = verifRT.witness
		res.Unused = len(verifRT.file.Nondet) - verifRT.pos
		if p := recover(); p != nil {
			if st, ok := p.(verifStop); ok {
				res.Status = st.why
				res.Detail = verifRT.diverged
				return
			}
			res.Status = "panic"
			res.Detail = strings.SplitN(fmt.Sprint(p), "\n", 2)[0]
			return
		}
		res.Status = "done"
	}()
	entry()
	return
}
