//go:build verif

package dig

// Larger profiles for the thorough tier.  Same machine, same clauses, wider
// bounds; each is registered only if it runs to exhaustion on the unchanged tree.

func verifT01a() { // 3 constructors, Export, 2 scopes
	verifRunProfile(&vProfile{name: "T01a", clauses: vC01,
		maxScopes: 2, nRegs: 3, maxParams: 1, maxResults: 1, pForms: 1, rForms: 1, names: 1, export: true,
		faults: 1, nInvokes: 1, invParams: 1, distinct: true, noMissing: true})
}

func verifT01b() { // 2 constructors with up to 2 params in objects, names, optional
	verifRunProfile(&vProfile{name: "T01b", clauses: vC01,
		maxScopes: 1, nRegs: 2, maxParams: 2, maxResults: 1, pForms: 2, rForms: 1, names: 2, optional: true,
		faults: 1, nInvokes: 1, invParams: 1, distinct: true, noMissing: true})
}

func verifT02a() { // three Invokes over late scopes
	verifRunProfile(&vProfile{name: "T02a", clauses: vC02,
		maxScopes: 2, nRegs: 2, maxParams: 1, maxResults: 1, pForms: 1, rForms: 1, names: 1, export: true,
		faults: 1, nInvokes: 3, invParams: 1, distinct: true, noMissing: true, lateScopes: true})
}

func verifT03a() { // 3 constructors with optional and group edges over 2 scopes
	verifRunProfile(&vProfile{name: "T03a", clauses: vC03,
		maxScopes: 2, nRegs: 3, maxParams: 1, maxResults: 1, pForms: 2, rForms: 1, names: 1, optional: true, groups: true,
		faults: 1, nInvokes: 1, invParams: 1, distinct: true})
}

func verifT04a() { // 3 constructors, 2 scopes, optional, Export
	verifRunProfile(&vProfile{name: "T04a", clauses: vC04,
		maxScopes: 2, nRegs: 3, maxParams: 1, maxResults: 1, pForms: 2, rForms: 1, names: 1, optional: true, export: true,
		faults: 1, nInvokes: 1, invParams: 1, distinct: true})
}

func verifT05a() { // 3 constructors, Export, scopes created at any time
	verifRunProfile(&vProfile{name: "T05a", clauses: vC05s,
		maxScopes: 2, nRegs: 3, maxParams: 1, maxResults: 1, pForms: 1, rForms: 1, names: 1, export: true,
		faults: 1, nInvokes: 1, invParams: 1, distinct: true, lateScopes: true})
}

func verifT05b() { // defer free, 3 scopes
	verifRunProfile(&vProfile{name: "T05b", clauses: vC05s,
		maxScopes: 3, nRegs: 2, maxParams: 1, maxResults: 1, pForms: 2, rForms: 1, names: 1, groups: true, export: true, deferOpt: 2,
		faults: 1, nInvokes: 1, invParams: 1, distinct: true})
}

func verifT06a() {
	verifC06run(&vProfile{name: "T06a", clauses: []string{"C06."},
		maxScopes: 2, nRegs: 2, maxParams: 1, maxResults: 1, pForms: 1, rForms: 1, names: 1, export: true,
		faults: 1, nInvokes: 1, invParams: 1}, false)
}

func verifT06b() {
	verifC06run(&vProfile{name: "T06b", clauses: []string{"C06."},
		maxScopes: 2, nRegs: 2, maxParams: 1, maxResults: 1, pForms: 1, rForms: 1, names: 1, decorators: 2, decor2: true,
		faults: 1, nInvokes: 1, invParams: 1}, true)
}

func verifT07a() { // 3 registrations incl. a decorator, all fault kinds
	verifRunProfile(&vProfile{name: "T07a", clauses: vC07,
		maxScopes: 1, nRegs: 3, maxParams: 1, maxResults: 1, pForms: 1, rForms: 1, names: 1, decorators: 1,
		faults: 3, recoverOpt: 2, nInvokes: 2, invParams: 1, distinct: true, noMissing: true})
}

func verifT08a() { // two Invokes, three scopes
	verifRunProfile(&vProfile{name: "T08a", clauses: vC08,
		maxScopes: 3, nRegs: 2, maxParams: 1, maxResults: 1, pForms: 1, rForms: 1, names: 1, export: true,
		faults: 1, nInvokes: 2, invParams: 1, lateScopes: true})
}

func verifT09a() { // names, result objects, Export, 2 scopes
	verifRunProfile(&vProfile{name: "T09a", clauses: vC09,
		maxScopes: 2, nRegs: 2, maxParams: 0, maxResults: 2, pForms: 2, rForms: 2, names: 2, export: true,
		faults: 1, nInvokes: 1, invParams: 1})
}

func verifT10a() { // flatten, Export, a late feeder, 2 scopes
	verifRunProfile(&vProfile{name: "T10a", clauses: vC10,
		maxScopes: 2, nRegs: 2, maxParams: 0, maxResults: 1, pForms: 2, rForms: 2, names: 1, groups: true, flatten: true, export: true,
		faults: 1, nInvokes: 2, invParams: 1, lateRegs: 1})
}

func verifT11a() { // 2 feeders with 2 results, 2 Invokes with 2 fields
	verifRunProfile(&vProfile{name: "T11a", clauses: vC11,
		maxScopes: 1, nRegs: 2, maxParams: 0, maxResults: 2, pForms: 2, rForms: 2, names: 1, groups: true, soft: true,
		faults: 1, nInvokes: 2, invParams: 2, objOnly: true})
}

func verifT12a() { // any mix of 3 registrations with up to 2 decorators
	verifRunProfile(&vProfile{name: "T12a", clauses: append([]string{"C01.arg"}, vC12...),
		maxScopes: 2, nRegs: 3, maxParams: 0, maxResults: 1, pForms: 1, rForms: 1, names: 1, decorators: 2, decor2: true,
		faults: 1, nInvokes: 2, invParams: 1, noMissing: true})
}

func verifT13a() { // 3 constructors
	verifRunProfile(&vProfile{name: "T13a", clauses: vC13,
		maxScopes: 2, nRegs: 3, maxParams: 1, maxResults: 1, pForms: 1, rForms: 1, names: 1,
		faults: 3, recoverOpt: 2, nInvokes: 1, invParams: 1, distinct: true})
}

func verifT14a() { // the input after 0-2 registrations, 2 scopes
	verifC14run(&vProfile{name: "T14a", clauses: []string{"C14."},
		maxScopes: 2, nRegs: 2, maxParams: 0, maxResults: 1, pForms: 1, rForms: 1, names: 1, as: true,
		faults: 1, nInvokes: 1, invParams: 1, quietCalls: true})
}

func verifT15a() { // two functions re-encoded
	verifC15run(&vProfile{name: "T15a", clauses: []string{"C15."},
		maxScopes: 1, nRegs: 2, maxParams: 1, maxResults: 1, pForms: 2, rForms: 2, names: 2, optional: true,
		faults: 1, nInvokes: 1, invParams: 1})
}

func verifT17a() { // groups, names, result objects, 2 registrations
	verifC17run(&vProfile{name: "T17a", clauses: []string{"C17."},
		maxScopes: 1, nRegs: 2, maxParams: 1, maxResults: 2, pForms: 2, rForms: 2, names: 2, groups: true, flatten: true,
		faults: 1, nInvokes: 1, invParams: 1})
}

func verifT18a() { // the full signature grammar
	verifC18run(&vProfile{name: "T18a", clauses: []string{"C18."},
		maxScopes: 1, maxParams: 2, maxResults: 2, pForms: 3, rForms: 2, names: 2, groups: true, soft: true, flatten: true,
		optional: true, variadic: true, faults: 1, invParams: 1, decorators: 1})
}

func verifT19a() { verifC19run(4, false) }
func verifT19b() { verifC19run(3, true) }

func verifT20a() { // decorator callbacks, 2 Invokes
	verifC20run(&vProfile{name: "T20a", clauses: []string{"C20."},
		maxScopes: 2, nRegs: 2, maxParams: 1, maxResults: 1, pForms: 1, rForms: 1, names: 1, callbacks: true, decorators: 1,
		faults: 3, recoverOpt: 2, nInvokes: 2, invParams: 1, distinct: true, noMissing: true})
}

func init() {
	for n, f := range map[string]func(){
		"verifT01a": verifT01a, "verifT01b": verifT01b, "verifT02a": verifT02a, "verifT03a": verifT03a, "verifT04a": verifT04a,
		"verifT05a": verifT05a, "verifT05b": verifT05b, "verifT06a": verifT06a, "verifT06b": verifT06b, "verifT07a": verifT07a,
		"verifT08a": verifT08a, "verifT09a": verifT09a, "verifT10a": verifT10a, "verifT11a": verifT11a, "verifT12a": verifT12a,
		"verifT13a": verifT13a, "verifT14a": verifT14a, "verifT15a": verifT15a, "verifT17a": verifT17a, "verifT18a": verifT18a,
		"verifT19a": verifT19a, "verifT19b": verifT19b, "verifT20a": verifT20a,
	} {
		verifEntries[n] = f
	}
}
