//go:build verif

package dig

// Differential harnesses: the same abstract history is applied to two
// containers; the properties are equalities between what the two observe.

import "reflect"

var vDiffClauses = []string{"C06.", "C15.", "C16.", "C17."}

func (h *vHist) newWorlds(optsA, optsB []Option) (*vWorld, *vWorld) {
	a := vNewWorld("A", optsA...)
	b := vNewWorld("B", optsB...)
	h.w = a
	return a, b
}

// ---- C17: DryRun -----------------------------------------------------------------------------

func verifC17run(p *vProfile) {
	h := &vHist{p: p}
	opts := h.options()
	a, b := h.newWorlds(opts, append([]Option{DryRun(true)}, opts...))
	a.recover, b.recover = h.wRecover, h.wRecover
	a.deferV, b.deferV = h.wDefer, h.wDefer
	b.dry = true
	for _, step := range h.skeleton() {
		ops := step()
		h.apply(a, ops)
		h.apply(b, ops)
		sa, sb := a.takeSeg(false), b.takeSeg(false)
		// the dry container never calls the invoked function either
		h.assert("C17.same", vStripRan(sa) == vStripRan(sb))
		if sa != "" {
			verifWitness("dry-compared")
		}
	}
	h.assert("C17.norun", b.nexec == 0)
}

// vStripRan removes the ":ran=N" part of Invoke records.
func vStripRan(s string) string {
	out := ""
	for i := 0; i < len(s); i++ {
		if i+5 <= len(s) && s[i:i+5] == ":ran=" {
			i += 5
			for i < len(s) && s[i] >= '0' && s[i] <= '9' {
				i++
			}
			i--
			continue
		}
		out += string(s[i])
	}
	return out
}

func verifC17a() {
	verifC17run(&vProfile{name: "C17a", clauses: []string{"C17."},
		maxScopes: 2, nRegs: 2, maxParams: 1, maxResults: 1, pForms: 2, rForms: 1, names: 1, optional: true,
		decorators: 1, faults: 1, nInvokes: 1, invParams: 1})
}

func verifC17b() { // groups, duplicates, result objects
	verifC17run(&vProfile{name: "C17b", clauses: []string{"C17."},
		maxScopes: 1, nRegs: 1, maxParams: 1, maxResults: 2, pForms: 2, rForms: 2, names: 2, groups: true, flatten: true,
		faults: 1, nInvokes: 1, invParams: 1})
}

// ---- C06: a rejected registration leaves no trace -------------------------------------------------

// bad function templates: inputs Provide/Decorate must reject.
const vNumBad = 12

type vBad struct {
	fn   interface{}
	opts []ProvideOption
}

type vPlainIface interface{ vPlainMethod() }

func (h *vHist) genBad(tag string) (vBad, int) {
	k := verifNdInt(tag+".bad", vNumBad)
	t := verifNdType(tag + ".bt")
	inS := reflect.StructOf([]reflect.StructField{{Name: "In", Type: vInType, Anonymous: true}, {Name: "X", Type: t}})
	outS := reflect.StructOf([]reflect.StructField{{Name: "Out", Type: vOutType, Anonymous: true}, {Name: "X", Type: t}})
	mk := func(in, out []reflect.Type) interface{} {
		ft := reflect.FuncOf(in, out, false)
		return reflect.MakeFunc(ft, func([]reflect.Value) []reflect.Value {
			verifAssert("C06.norun", false)
			res := make([]reflect.Value, len(out))
			for i, o := range out {
				res[i] = reflect.Zero(o)
			}
			return res
		}).Interface()
	}
	switch k {
	case 0: // no results
		return vBad{fn: mk([]reflect.Type{t}, nil)}, k
	case 1: // only an error
		return vBad{fn: mk(nil, []reflect.Type{vErrType})}, k
	case 2: // returns a parameter object
		return vBad{fn: mk(nil, []reflect.Type{inS})}, k
	case 3: // depends on a result object
		return vBad{fn: mk([]reflect.Type{outS}, []reflect.Type{t})}, k
	case 4: // pointer to a parameter object
		return vBad{fn: mk([]reflect.Type{reflect.PointerTo(inS)}, []reflect.Type{t})}, k
	case 5: // pointer to a result object
		return vBad{fn: mk(nil, []reflect.Type{reflect.PointerTo(outS)})}, k
	case 6: // name and group together
		return vBad{fn: mk(nil, []reflect.Type{t}), opts: []ProvideOption{Name("a"), Group("g")}}, k
	case 7: // backquote in the name
		return vBad{fn: mk(nil, []reflect.Type{t}), opts: []ProvideOption{Name("a`b")}}, k
	case 8: // As with a non-interface
		return vBad{fn: mk(nil, []reflect.Type{t}), opts: []ProvideOption{As(new(int))}}, k
	case 9: // As with an interface the type does not implement
		return vBad{fn: mk(nil, []reflect.Type{t}), opts: []ProvideOption{As(new(vPlainIface))}}, k
	case 10: // malformed optional tag
		bad := reflect.StructOf([]reflect.StructField{{Name: "In", Type: vInType, Anonymous: true}, {Name: "X", Type: t, Tag: `optional:"maybe"`}})
		return vBad{fn: mk([]reflect.Type{bad}, []reflect.Type{t})}, k
	default: // group with an unknown option on a result object
		bad := reflect.StructOf([]reflect.StructField{{Name: "Out", Type: vOutType, Anonymous: true}, {Name: "X", Type: t, Tag: `group:"g,bogus"`}})
		return vBad{fn: mk(nil, []reflect.Type{bad})}, k
	}
}

func verifC06run(p *vProfile, withBad bool) {
	h := &vHist{p: p}
	a, b := h.newWorlds(h.options(), nil)
	if h.wDefer {
		b = vNewWorld("B", DeferAcyclicVerification())
	}
	a.deferV, b.deferV = h.wDefer, h.wDefer
	steps := h.skeleton()
	// the candidate is applied to A only, after a free number of the steps
	pos := verifNdInt("cand.pos", p.nRegs+1)
	for i, step := range steps {
		if i == pos {
			h.candidate(a, b, withBad)
		}
		ops := step()
		h.apply(a, ops)
		h.apply(b, ops)
		sa, sb := a.takeSeg(true), b.takeSeg(true)
		if i >= pos {
			h.assert("C06.same", sa == sb)
			verifWitness("after-rejection-compared")
		}
	}
}

// candidate performs a registration on world a only and assumes that dig
// rejected it; b gets only the scope creations.
func (h *vHist) candidate(a, b *vWorld, withBad bool) {
	if withBad && verifNdBool("cand.isbad") {
		bad, k := h.genBad("cand")
		s := 0
		if len(a.scopes) > 1 {
			s = verifNdInt("cand.scope", len(a.scopes))
		}
		asDecor := verifNdBool("cand.decorate")
		var o vOutcome
		if asDecor {
			o = vGuard(func() error { return a.scopes[s].Decorate(bad.fn) })
		} else {
			o = vGuard(func() error { return a.scopes[s].Provide(bad.fn, bad.opts...) })
		}
		h.assert("C14.nopanic", o.class != vcPanicked)
		h.assert("C06.nopanic", o.class != vcPanicked)
		verifAssume(o.class != vcOK)
		if o.class == vcPanicked {
			// nothing more can be said about a call that panicked
			verifAssume(false)
		}
		verifWitness("rejected-bad-" + vItoa(k))
		a.seg = nil
		return
	}
	ops := h.genReg(nil, "cand")
	op := ops[len(ops)-1]
	r, o := a.register(op.f, op.scope)
	h.assert("C06.nopanic", o.class != vcPanicked)
	verifAssume(o.class != vcOK && o.class != vcPanicked)
	a.seg = nil
	// never counted as a registration of the model
	r.accepted = false
	if o.class == vcCycle {
		verifWitness("rejected-cycle")
	} else {
		verifWitness("rejected-other")
	}
	if op.f.kind == vDecor {
		verifWitness("rejected-decorator")
	}
}

func verifC06a() { // cycles and duplicates in a scope tree, Export
	verifC06run(&vProfile{name: "C06a", clauses: []string{"C06."},
		maxScopes: 2, nRegs: 1, maxParams: 1, maxResults: 1, pForms: 1, rForms: 1, names: 1, export: true,
		faults: 1, nInvokes: 1, invParams: 1}, false)
}

func verifC06b() { // malformed inputs and duplicate decorators
	verifC06run(&vProfile{name: "C06b", clauses: []string{"C06."},
		maxScopes: 2, nRegs: 1, maxParams: 1, maxResults: 1, pForms: 1, rForms: 1, names: 1, decorators: 2,
		faults: 1, nInvokes: 1, invParams: 1}, true)
}

func init() {
	for n, f := range map[string]func(){
		"verifC17a": verifC17a, "verifC17b": verifC17b, "verifC06a": verifC06a, "verifC06b": verifC06b,
	} {
		verifEntries[n] = f
	}
}

// ---- C16: registration order and verification timing ----------------------------------------------

func vPermute(n, k int) []int {
	idx := make([]int, n)
	for i := range idx {
		idx[i] = i
	}
	out := make([]int, 0, n)
	for i := n; i > 0; i-- {
		j := k % i
		k /= i
		out = append(out, idx[j])
		idx = append(idx[:j], idx[j+1:]...)
	}
	return out
}

func vFact(n int) int {
	f := 1
	for i := 2; i <= n; i++ {
		f *= i
	}
	return f
}

func verifC16run(p *vProfile) {
	h := &vHist{p: p}
	a, b := h.newWorlds(nil, nil)
	c := vNewWorld("C", DeferAcyclicVerification())
	c.deferV = true
	steps := h.skeleton()
	var scopes, regs []vOp
	for _, step := range steps[:p.nRegs] {
		ops := step()
		h.apply(a, ops)
		h.apply(c, ops)
		for _, op := range ops {
			if op.kind == opScope {
				scopes = append(scopes, op)
			} else {
				regs = append(regs, op)
			}
		}
	}
	allA := true
	for _, r := range a.regs {
		if !r.accepted {
			allA = false
		}
	}
	if !p.twoSided {
		verifAssume(allA)
	}
	a.takeSeg(false)
	// B: all scopes first, then the registrations in a free order
	h.apply(b, scopes)
	nperm := vFact(len(regs))
	if p.noPerm {
		nperm = 1
	}
	perm := vPermute(len(regs), verifNdInt("perm", nperm))
	for _, i := range perm {
		h.apply(b, regs[i:i+1])
	}
	allB := true
	for _, r := range b.regs {
		if !r.accepted {
			allB = false
		}
	}
	if p.twoSided {
		// the block is accepted as a whole in one arrangement iff it is in the other
		h.assert("C16.accept", allA == allB)
		verifAssume(allA)
	}
	for _, r := range b.regs {
		h.assert("C16.accept", r.accepted)
	}
	for _, r := range c.regs {
		h.assert("C16.defer", r.accepted)
	}
	b.takeSeg(false)
	c.takeSeg(false)
	identity := true
	for i, j := range perm {
		if i != j {
			identity = false
		}
	}
	if !identity {
		verifWitness("permuted")
	}
	if len(scopes) > 0 {
		verifWitness("scopes-moved")
	}
	for _, step := range steps[p.nRegs:] {
		ops := step()
		h.apply(a, ops)
		h.apply(b, ops)
		h.apply(c, ops)
		// same verdict for every Invoke; same wiring for the successful ones
		// (what a failing Invoke executed before it failed is unspecified)
		ca, ea := a.takeSeg2()
		cb, eb := b.takeSeg2()
		cc, ec := c.takeSeg2()
		h.assert("C16.perm", ca == cb)
		h.assert("C16.defer", ca == cc)
		if vIsOK(ca) {
			h.assert("C16.perm", ea == eb)
			h.assert("C16.defer", ea == ec)
			verifWitness("order-compared-ok")
		}
		verifWitness("order-compared")
	}
}

func verifC16a() {
	verifC16run(&vProfile{name: "C16a", clauses: []string{"C16."},
		maxScopes: 2, nRegs: 2, maxParams: 1, maxResults: 1, pForms: 2, rForms: 1, names: 1, groups: true,
		faults: 1, nInvokes: 1, invParams: 1})
}

func verifC16b() { // three registrations incl. a decorator, one scope
	verifC16run(&vProfile{name: "C16b", clauses: []string{"C16."},
		maxScopes: 1, nRegs: 3, maxParams: 1, maxResults: 1, pForms: 1, rForms: 1, names: 1, decorators: 1,
		faults: 1, nInvokes: 1, invParams: 1, distinct: true})
}

// ---- C15: equivalent encodings ----------------------------------------------------------------------

// vAltFunc returns a copy of f whose signature is encoded differently:
// positional <-> object field (depth 1 or 2), option <-> tag, with/without a
// trailing variadic parameter.
func (h *vHist) vAltFunc(f *vFunc, tag string) *vFunc {
	g := &vFunc{id: f.id, kind: f.kind, retErr: f.retErr, errFirst: f.errFirst, export: f.export, fault: f.fault, callback: f.callback}
	uni := -1
	if h.p.altUniform && len(f.params) > 0 {
		uni = verifNdInt(tag+".altall", 3)
	}
	for i, p := range f.params {
		q := *p
		if uni >= 0 {
			q.form = uni
		} else if p.name == "" && !p.optional && p.group == "" {
			q.form = verifNdInt(tag+".p"+vItoa(i)+".alt", 3)
		} else {
			q.form = 1 + verifNdInt(tag+".p"+vItoa(i)+".alt", 2)
		}
		g.params = append(g.params, &q)
	}
	// results: Provide options apply to every positional result, so they are
	// only an alternative for single-result constructors
	single := len(f.results) == 1
	for i, r := range f.results {
		q := *r
		if f.kind == vCtor {
			if single || (r.name == "" && r.group == "") {
				q.form = verifNdInt(tag+".r"+vItoa(i)+".alt", 2)
			} else {
				q.form = 1
			}
		}
		g.results = append(g.results, &q)
	}
	if f.kind == vCtor {
		allPos := true
		for _, r := range g.results {
			if r.form != 0 {
				allPos = false
			}
		}
		if allPos && single {
			g.optName, g.optGroup = g.results[0].name, g.results[0].group
			if g.results[0].flatten > 0 {
				g.optGroup += ",flatten"
			}
		} else {
			for _, r := range g.results {
				if r.form == 0 && (r.name != "" || r.group != "") {
					r.form = 1
				}
			}
		}
	}
	g.variadic = verifNdBool(tag + ".variadic")
	g.layout()
	return g
}

func verifC16c() { // three registrations with group edges over two scopes
	verifC16run(&vProfile{name: "C16c", clauses: []string{"C16."},
		maxScopes: 2, nRegs: 3, maxParams: 1, maxResults: 1, pForms: 2, rForms: 1, names: 1, groups: true, objOnly: true,
		faults: 1, nInvokes: 1, invParams: 0})
}

func verifC15run(p *vProfile) {
	h := &vHist{p: p}
	a, b := h.newWorlds(nil, nil)
	for _, step := range h.skeleton() {
		ops := step()
		h.apply(a, ops)
		var opsB []vOp
		changed := false
		for _, op := range ops {
			if op.f != nil {
				alt := h.vAltFunc(op.f, op.tag)
				if alt.typ != op.f.typ {
					changed = true
				}
				op.f = alt
			}
			opsB = append(opsB, op)
		}
		h.apply(b, opsB)
		sa, sb := a.takeSeg(true), b.takeSeg(true)
		h.assert("C15.same", sa == sb)
		if changed {
			verifWitness("encoding-differs")
		}
	}
}

type vC15UnexpFirst struct {
	x  *vT1 //nolint:unused
	In `ignore-unexported:"true"`
	A  *vT0
}

type vC15UnexpLast struct {
	In `ignore-unexported:"true"`
	A  *vT0
	x  *vT1 //nolint:unused
}

// verifC15e: positional, embed-first and embed-later spellings of func(*vT0) *vT2.
func verifC15e() {
	ran := [3]int{}
	fns := []interface{}{
		func(a *vT0) *vT2 { ran[0]++; return &vT2{} },
		func(p vC15UnexpLast) *vT2 { ran[1]++; return &vT2{} },
		func(p vC15UnexpFirst) *vT2 { ran[2]++; return &vT2{} },
	}
	withDep := verifNdBool("withdep")
	var verdicts [3]string
	for i, fn := range fns {
		c := New()
		if withDep {
			_ = c.Provide(func() *vT0 { return &vT0{} })
		}
		fn := fn
		o := vGuard(func() error { return c.Provide(fn) })
		oi := vGuard(func() error { return c.Invoke(func(*vT2) {}) })
		verdicts[i] = vClassNames[o.class] + "/" + vClassNames[oi.class] + "/" + vItoa(ran[i])
		verifObserve("spelling " + vItoa(i) + ": " + verdicts[i])
	}
	verifAssert("C15.same", verdicts[0] == verdicts[1])
	verifAssert("C15.same", verdicts[0] == verdicts[2])
	verifWitness("encoding-differs")
	if withDep {
		verifWitness("invoke-ok")
	}
}

func init() { verifEntries["verifC15e"] = verifC15e }

func verifC15a() {
	verifC15run(&vProfile{name: "C15a", clauses: []string{"C15."},
		maxScopes: 1, nRegs: 1, maxParams: 1, maxResults: 1, pForms: 2, rForms: 2, names: 2, optional: true,
		faults: 1, nInvokes: 1, invParams: 1})
}

func verifC15b() { // groups and two results
	verifC15run(&vProfile{name: "C15b", clauses: []string{"C15."},
		maxScopes: 1, nRegs: 1, maxParams: 1, maxResults: 2, pForms: 2, rForms: 2, names: 1, groups: true,
		faults: 1, nInvokes: 1, invParams: 1})
}

func init() {
	for n, f := range map[string]func(){
		"verifC16a": verifC16a, "verifC16b": verifC16b, "verifC16c": verifC16c, "verifC15a": verifC15a, "verifC15b": verifC15b,
	} {
		verifEntries[n] = f
	}
}
