//go:build verif

package dig

// Scenario driver: generates descriptors from nondet choices under a profile,
// runs a history skeleton and applies the monitors (assertion clauses).

import (
	"errors"
	"reflect"
)

type vProfile struct {
	name        string
	clauses     []string // enabled clause prefixes, e.g. "C01."
	maxScopes   int      // including the root
	nRegs       int      // registrations before the first Invoke
	lateRegs    int      // registrations between first and second Invoke
	maxParams   int
	maxResults  int
	pForms      int // 1 positional only, 2 +object field, 3 +nested object field
	rForms      int // 1 positional only, 2 +result object field
	names       int // 1 = unnamed only, 2 = {"", "a"}, 3 = {"", "a", "b"}
	groups      bool
	soft        bool
	flatten     bool
	optional    bool
	export      bool
	decorators  int // how many of the registrations may be decorators
	faults      int // 1 none, 2 +error, 3 +panic
	recoverOpt  int // 0 off, 1 on, 2 free
	deferOpt    int // 0 off, 1 on, 2 free
	nInvokes    int
	invParams   int
	variadic    bool
	distinct    bool // assume all produced single keys pairwise distinct
	noMissing   bool // assume every Invoke has all required deps
	callbacks   bool
	lateScopes  bool  // scopes may also be created after registrations
	quietCalls  bool  // call String/Visualize after every registration
	as          bool  // concrete As results and interface-typed parameters
	decor2      bool  // decorators may decorate two keys / take an extra parameter
	objOnly     bool  // all parameters of invoked functions are object fields
	lateAfter   int   // the late registrations follow Invoke number lateAfter (0-based)
	regKinds    []int // if set: the kind (vCtor / vDecor) of the i-th registration is fixed
	errPos      bool  // the error result may come first instead of last
	reenter     bool  // constructors / decorators may re-enter the container while they run
	decor3      bool  // decorators may also produce a second key they do not consume
	scopesFirst bool  // scopes are created before the first registration only
	noPerm      bool  // C16: keep the registration order, vary scope creation time only
	groupNames  int   // n>1: group names are drawn from the first n of {"g", "g ", "G", "gg"}
	lateFirst   bool  // the late registrations come before the first Invoke (C06: right after the candidate)
	allAccepted bool  // assume every registration is accepted
	strictDecor bool  // assume every decorated single key has a constructor visible from the decorator's scope
	asObj       bool  // As may be combined with result objects
	errConcrete bool  // error results may be declared as a concrete error type
	regScopes   []int // if set: the target scope of the i-th registration is fixed (needs scopesFirst with exactly that many scopes)
	regParams   []int // if set: the maximal number of parameters of the i-th registration
	regResults  []int // if set: the maximal number of results of the i-th registration
	altUniform  bool  // C15: all parameters of a function are re-encoded the same way (their order is kept)
	decorSoft   bool  // decorators may take a soft value-group as an extra parameter
	twoSided    bool  // C16: a rejection in the container as drawn is compared with the rearranged one instead of being assumed away
	visErr      bool  // call Visualize(VisualizeError(err)) after every failed Invoke
	softOuter   bool  // soft group fields are not drawn inside nested parameter objects
	nestLast    bool  // the nested parameter object of an invoked function may be declared after the plain fields
	as3         bool  // As lists may have three interfaces
	regDShape   []int // if set and >= 0: the shape (see genFunc) of the i-th registration when it is a decorator is fixed
}

type vHist struct {
	p     *vProfile
	w     *vWorld
	funcs []*vFunc
	inv   *vClosure
	invF  *vFunc
	invS  int

	wRecover   bool
	wDefer     bool
	nScopes    int
	nRegsDrawn int
}

func (h *vHist) enabled(clause string) bool {
	for _, pre := range h.p.clauses {
		if len(clause) >= len(pre) && clause[:len(pre)] == pre {
			return true
		}
	}
	return false
}

func (h *vHist) assert(clause string, c bool) {
	if h.enabled(clause) {
		verifAssert(clause, c)
	}
}

var vNames = []string{"", "a", "b"}

func (h *vHist) genParam(tag string, allowGroup bool) *vParam {
	p := &vParam{}
	if h.p.objOnly {
		p.form = 1
	} else if h.p.pForms > 1 {
		p.form = verifNdInt(tag+".form", h.p.pForms)
	}
	if h.p.as {
		switch verifNdInt(tag+".ct", 4) {
		case 1:
			p.t = vAType
		case 2:
			p.t = vI0Type
		case 3:
			p.t = vI1Type
		}
	}
	if p.t == nil {
		p.t = verifNdType(tag + ".t")
	}
	if p.form > 0 {
		if h.p.groups && allowGroup && verifNdBool(tag+".grp") {
			p.group = h.groupName(tag)
			if h.p.soft {
				p.soft = verifNdBool(tag + ".soft")
				if h.p.softOuter && p.soft {
					// the guarantee of C11 is per parameter object: keep soft fields in the outer object
					verifAssume(p.form == 1)
				}
			}
			return p
		}
		if h.p.names > 1 {
			p.name = vNames[verifNdInt(tag+".name", h.p.names)]
		}
		if h.p.optional {
			p.optional = verifNdBool(tag + ".opt")
		}
	}
	return p
}

func (h *vHist) genFunc(kind int, tag string) *vFunc {
	f := &vFunc{id: len(h.funcs), kind: kind}
	h.funcs = append(h.funcs, f)
	maxP := h.p.maxParams
	maxR := h.p.maxResults
	if kind == vInvoked {
		maxP = h.p.invParams
		if h.p.nestLast {
			f.nestedLast = verifNdBool(tag + ".nlast")
		}
	} else if n := h.nRegsDrawn - 1; n >= 0 {
		if n < len(h.p.regParams) {
			maxP = h.p.regParams[n]
		}
		if n < len(h.p.regResults) {
			maxR = h.p.regResults[n]
		}
	}
	if kind == vDecor {
		// func(T [, X]) T : decorates the key of its first parameter
		t := verifNdType(tag + ".dt")
		k := &vParam{t: t}
		r := &vResult{t: t}
		if h.p.pForms > 1 && h.p.names > 1 {
			k.form = 1
			r.form = 1
			k.name = vNames[verifNdInt(tag+".dname", h.p.names)]
			r.name = k.name
		}
		if h.p.groups && h.p.pForms > 1 && verifNdBool(tag+".dgrp") {
			// decorate a whole value group: In{[]T group} -> Out{[]T group}
			k.form, r.form = 1, 1
			k.name, r.name = "", ""
			k.group, r.group = "g", "g"
			r.whole = true
			r.flatten = 1 + verifNdInt(tag+".dglen", 3)
		}
		f.params = append(f.params, k)
		f.results = append(f.results, r)
		if h.p.decor2 {
			nshapes := 4
			if h.p.decor3 {
				nshapes = 5
			}
			if h.p.decorSoft {
				nshapes = 6
			}
			shape := -1
			if n := h.nRegsDrawn - 1; n >= 0 && n < len(h.p.regDShape) {
				shape = h.p.regDShape[n]
			}
			if shape < 0 {
				shape = verifNdInt(tag+".dshape", nshapes)
			}
			switch shape {
			case 5: // an extra soft value-group parameter
				f.params = append(f.params, &vParam{t: verifNdType(tag + ".dsoft"), form: 1, group: "g", soft: true})
				if k.form == 0 {
					k.form, r.form = 1, 1
				}
			case 4: // produces a second key it does not consume
				f.results = append(f.results, &vResult{t: verifNdType(tag + ".dt3"), form: r.form})
			case 3: // no input at all: replaces the value
				f.params = nil
			case 1: // an extra dependency
				f.params = append(f.params, &vParam{t: verifNdType(tag + ".dx"), form: k.form})
			case 2: // decorates a second key
				t2 := verifNdType(tag + ".dt2")
				f.params = append(f.params, &vParam{t: t2, form: k.form})
				f.results = append(f.results, &vResult{t: t2, form: r.form})
			}
		}
	} else {
		np := 0
		if maxP > 0 {
			np = verifNdInt(tag+".np", maxP+1)
		}
		for i := 0; i < np; i++ {
			f.params = append(f.params, h.genParam(tag+".p"+vItoa(i), true))
		}
	}
	if kind == vCtor {
		nr := 1
		if maxR > 1 {
			nr += verifNdInt(tag+".nr", maxR)
		}
		for i := 0; i < nr; i++ {
			r := &vResult{t: verifNdType(tag + ".r" + vItoa(i))}
			if h.p.rForms > 1 {
				r.form = verifNdInt(tag+".r"+vItoa(i)+".form", h.p.rForms)
			}
			f.results = append(f.results, r)
		}
		// names / groups: positional results share the Provide options,
		// fields of the result object carry tags
		anyObj := false
		for _, r := range f.results {
			if r.form == 1 {
				anyObj = true
			}
		}
		if !anyObj {
			if h.p.groups && verifNdBool(tag+".optgrp") {
				f.optGroup = "g"
			} else if h.p.names > 1 {
				f.optName = vNames[verifNdInt(tag+".optname", h.p.names)]
			}
		}
		if h.p.as && (!anyObj || h.p.asObj) && verifNdBool(tag+".as") {
			nas := 2
			if h.p.as3 {
				nas = 3
			}
			f.optAs = 1 + verifNdInt(tag+".asn", nas)
			for _, r := range f.results {
				r.t = vAType
				r.as = f.optAs
			}
		}
		for i, r := range f.results {
			if r.form == 0 {
				r.name, r.group = f.optName, f.optGroup
				// (flatten combined with As is an invalid input: the slice type itself
				// would have to implement the interface; C14 covers it)
				if f.optGroup != "" && h.p.flatten && f.optAs == 0 && verifNdBool(tag+".r"+vItoa(i)+".flat") {
					r.flatten = 1 + verifNdInt(tag+".r"+vItoa(i)+".flen", 3)
				}
			} else {
				if h.p.groups && verifNdBool(tag+".r"+vItoa(i)+".grp") {
					r.group = h.groupName(tag + ".r" + vItoa(i))
					if h.p.flatten && f.optAs == 0 && verifNdBool(tag+".r"+vItoa(i)+".flat") {
						r.flatten = 1 + verifNdInt(tag+".r"+vItoa(i)+".flen", 3)
					}
				} else if h.p.names > 1 {
					r.name = vNames[verifNdInt(tag+".r"+vItoa(i)+".name", h.p.names)]
				}
			}
		}
		if f.optGroup != "" {
			for _, r := range f.results {
				if r.flatten > 0 {
					f.optGroup = "g,flatten"
				}
			}
			// the flatten option applies to all positional results
			if f.optGroup == "g,flatten" {
				for _, r := range f.results {
					if r.flatten == 0 {
						r.flatten = 1 + verifNdInt(tag+".flen2", 3)
					}
				}
			}
		}
		if h.p.export {
			f.export = verifNdBool(tag + ".export")
		}
	}
	if kind != vInvoked || h.p.faults > 1 {
		if h.p.faults > 1 {
			f.retErr = true
			for i := 0; i < 2; i++ {
				f.fault[i] = verifNdInt(tag+".fault"+vItoa(i), h.p.faults)
			}
			if h.p.errPos {
				f.errFirst = verifNdBool(tag + ".errfirst")
			}
			if h.p.errConcrete && kind != vInvoked && verifNdBool(tag+".errconcrete") {
				// the error result is declared as a concrete (non-pointer) error type;
				// its zero value is a non-nil error, so the function always fails
				f.errKind = 1
				f.fault = [3]int{vFail, vFail, vFail}
			}
		}
	}
	if h.p.reenter && kind != vInvoked {
		f.reenter = verifNdBool(tag + ".reenter")
	}
	if h.p.variadic {
		f.variadic = verifNdBool(tag + ".variadic")
	}
	if h.p.callbacks && kind != vInvoked {
		f.callback = verifNdBool(tag + ".cb")
	}
	f.layout()
	return f
}

func vSameType(a, b reflect.Type) bool { return a == b }

var vGroupNames = []string{"g", "g ", "G", "gg"}

func (h *vHist) groupName(tag string) string {
	if h.p.groupNames > 1 {
		return vGroupNames[verifNdInt(tag+".gname", h.p.groupNames)]
	}
	return "g"
}

// assumeDistinct restricts the history to registrations whose produced single
// keys are pairwise different from those of earlier constructors.
func (h *vHist) assumeDistinct(f *vFunc) {
	if f.kind != vCtor {
		return
	}
	for i, r := range f.results {
		if r.group != "" {
			continue
		}
		for j := 0; j < i; j++ {
			if f.results[j].group == "" {
				for _, k1 := range r.keys() {
					verifAssume(!f.results[j].hasKey(k1))
				}
			}
		}
		for _, g := range h.funcs {
			if g == f || g.kind != vCtor {
				continue
			}
			for _, r2 := range g.results {
				if r2.group == "" {
					for _, k1 := range r.keys() {
						verifAssume(!r2.hasKey(k1))
					}
				}
			}
		}
	}
}

// ---- monitors ---------------------------------------------------------------------------

// checkEnter runs inside every user function body, after its arguments have
// been recorded and before it produces results.
func (h *vHist) checkEnter(w *vWorld, e *vExec) {
	r := e.reg
	f := r.f
	// C02: never entered while on the stack, never after a success
	for _, o := range w.stack[:len(w.stack)-1] {
		h.assert("C02.reentry", o.reg != r)
	}
	for _, o := range r.execs {
		if o != e {
			h.assert("C02.once", !(o.done && o.outcome == vOK))
			h.assert("C10.once", !(o.done && o.outcome == vOK))
			h.assert("C12.once", !(o.done && o.outcome == vOK))
			h.assert("C07.cached", !(o.done && o.outcome == vOK))
		}
	}
	h.assert("C17.norun", !w.dry)
	// C03: outside an Invoke nothing runs; inside only the closure runs
	h.assert("C03.reg", w.cur >= 0)
	if w.cur >= 0 && f.kind != vInvoked && w.inv != nil {
		h.assert("C03.only", vHas(w.inv.may, r))
		h.assert("C11.norun", vHas(w.inv.may, r))
	}
	// C01 / C07 / C12: every argument is what the model resolves
	scope := w.resScope(r)
	for i, p := range f.params {
		rc := e.args[i]
		if p.group != "" {
			h.checkGroupArg(w, e, p, rc, scope)
			continue
		}
		var self *vReg
		if f.kind == vDecor {
			self = r
		}
		sup, found := w.resolve(scope, p.key(), self)
		if !rc.isNil && found && sup.reg.f.kind == vDecor {
			excl := vExcl(self, nil)
			for found && sup.reg.f.kind == vDecor && w.buildingFor(sup.reg, r) {
				if v := w.findVal(rc.ptr); v != nil && v.by.reg == sup.reg {
					break
				}
				excl = append(excl, sup.reg)
				sup, found = w.resolveX(scope, p.key(), excl)
			}
		}
		if rc.isNil {
			h.assert("C01.zero", p.optional && (!found || w.unavailable(sup.reg, nil)))
			h.assert("C04.zero", p.optional && (!found || w.unavailable(sup.reg, nil)))
			if p.optional {
				verifWitness("optional-zero")
			}
			continue
		}
		val := w.findVal(rc.ptr)
		h.assert("C01.foreign", val != nil)
		if val == nil {
			continue
		}
		h.assert("C01.tok", rc.tok == val.tok)
		h.assert("C07.nodeliver", val.by.outcome == vOK)
		h.assert("C01.arg", found && val.by.reg == sup.reg && val.res == sup.res)
		if found && sup.reg.f.kind == vDecor {
			h.assert("C12.sees", val.by.reg == sup.reg)
			verifWitness("decorated-arg")
		} else {
			h.assert("C12.outside", val.by.reg.f.kind != vDecor)
		}
		if f.kind == vDecor && i == 0 {
			h.assert("C12.input", found && val.by.reg == sup.reg)
		}
		if p.optional {
			h.assert("C04.opt", found)
			verifWitness("optional-present")
		}
		if found && sup.reg.home != scope {
			verifWitness("cross-scope-arg")
			h.assert("C08.nearest", val.by.reg == sup.reg)
		}
		// identical instance for all consumers of one result
		ok := val.by.succeededIs()
		h.assert("C02.identity", ok)
	}
	if f.kind != vInvoked {
		verifWitness("ctor-ran")
	}
	w.record(h.execSummary(w, e))
}

func (h *vHist) valName(w *vWorld, rc vRecv) string {
	if rc.isNil {
		return "nil"
	}
	v := w.findVal(rc.ptr)
	if v == nil {
		return "?"
	}
	return "f" + vItoa(v.by.reg.f.id) + ".r" + vItoa(v.res) + "." + vItoa(v.elem) + "#" + vItoa(v.by.n)
}

// execSummary describes one execution by the provenance of its arguments
// (used to compare two containers in the differential harnesses).
func (h *vHist) execSummary(w *vWorld, e *vExec) string {
	s := " exec f" + vItoa(e.reg.f.id) + "#" + vItoa(e.n) + "("
	for i, rc := range e.args {
		if i > 0 {
			s += ","
		}
		if rc.isGrp {
			var names []string
			for _, el := range rc.list {
				names = append(names, h.valName(w, el))
			}
			// insertion sort: group order is unspecified
			for a := 1; a < len(names); a++ {
				for b := a; b > 0 && names[b] < names[b-1]; b-- {
					names[b], names[b-1] = names[b-1], names[b]
				}
			}
			s += "{"
			for j, n := range names {
				if j > 0 {
					s += ";"
				}
				s += n
			}
			s += "}"
		} else {
			s += h.valName(w, rc)
		}
	}
	return s + ")"
}

func (e *vExec) succeededIs() bool {
	s := e.reg.succeeded()
	return s == e
}

func (h *vHist) checkGroupArg(w *vWorld, e *vExec, p *vParam, rc vRecv, scope int) {
	var self *vReg
	if e.reg.f.kind == vDecor {
		self = e.reg
	}
	excl := vExcl(self, nil)
	d, ok := w.resolveDecorX(scope, p.key(), excl)
	for ok && !w.allFrom(rc, d.reg) && w.buildingFor(d.reg, e.reg) {
		// e.reg is a dependency of that decorator and is built while the decorator
		// is on dig's stack: it sees what the decorator itself will see
		excl = append(excl, d.reg)
		d, ok = w.resolveDecorX(scope, p.key(), excl)
	}
	if ok {
		// decorated group: every element is an output of that decorator
		for _, el := range rc.list {
			val := w.findVal(el.ptr)
			h.assert("C12.sees", !el.isNil && val != nil && val.by.reg == d.reg)
		}
		// ... and it is the whole group that decorator returned (so the decorator
		// has run before its consumer is called)
		ex := d.reg.succeeded()
		h.assert("C12.sees", ex != nil)
		if ex != nil {
			n := 0
			for _, v := range ex.outs {
				if v.res == d.res {
					n++
				}
			}
			h.assert("C12.sees", len(rc.list) == n)
		}
		verifWitness("decorated-group")
		return
	}
	// every element comes from a successful execution of a visible feeder
	fds := w.feeders(scope, p.key())
	for i, el := range rc.list {
		val := w.findVal(el.ptr)
		good := !el.isNil && val != nil
		h.assert("C10.foreign", good)
		if !good {
			continue
		}
		isFeeder := false
		for _, fd := range fds {
			if fd.reg == val.by.reg && fd.res == val.res {
				isFeeder = true
			}
		}
		h.assert("C10.foreign", isFeeder)
		h.assert("C07.nodeliver", val.by.outcome == vOK)
		h.assert("C10.tok", el.tok == val.tok)
		for j := 0; j < i; j++ {
			h.assert("C10.dup", rc.list[j].ptr != el.ptr)
		}
	}
	// every member of every executed visible feeder is present ...
	want := 0
	for _, fd := range fds {
		ex := fd.reg.succeeded()
		if ex == nil {
			// hard groups run all feeders before the consumer is called
			if !p.soft {
				h.assert("C10.all", false)
			}
			continue
		}
		if p.soft && ex.invoke == w.cur && !h.softMust(w, e, fd.reg) {
			// executed during this Invoke for another reason: may or may not
			// have been seen yet
			for _, v := range ex.outs {
				if v.res == fd.res {
					for _, el := range rc.list {
						if el.ptr == v.ptr {
							want++
						}
					}
				}
			}
			continue
		}
		for _, v := range ex.outs {
			if v.res != fd.res {
				continue
			}
			want++
			found := false
			for _, el := range rc.list {
				if el.ptr == v.ptr {
					found = true
				}
			}
			if p.soft {
				h.assert("C11.content", found)
			} else {
				h.assert("C10.all", found)
			}
		}
	}
	h.assert("C10.count", len(rc.list) == want)
	if p.soft {
		verifWitness("soft-group-arg")
		if len(rc.list) > 0 {
			verifWitness("soft-group-nonempty")
		}
	} else if len(rc.list) > 0 {
		verifWitness("group-nonempty")
	}
}

// softMust reports whether feeder fd is required by the other (non-soft)
// parameters of the function being executed, so that its members must be
// visible to a soft group parameter of the same function.
func (h *vHist) softMust(w *vWorld, e *vExec, fd *vReg) bool {
	cl := &vClosure{}
	var others []*vParam
	for _, p := range e.reg.f.params {
		if !(p.group != "" && p.soft) {
			others = append(others, p)
		}
	}
	w.closure(w.resScope(e.reg), others, nil, cl, true)
	return vHas(cl.must, fd)
}

// afterInvoke applies the API-level monitors to a finished Invoke.
func (h *vHist) afterInvoke(w *vWorld, r *vReg, o vOutcome, cl *vClosure, before []int) {
	// executions of this Invoke that failed (error or panic)
	var failed []*vExec
	all := append([]*vReg{r}, w.regs...)
	for _, reg := range all {
		for _, e := range reg.execs {
			if e.invoke == w.invokes-1 && e.outcome != vOK {
				failed = append(failed, e)
			}
		}
	}
	ran := len(r.execs)
	h.assert("C14.nopanic", o.class != vcPanicked || len(failed) > 0)
	if len(failed) > 0 {
		verifWitness("user-failure")
		fe := failed[0]
		h.assert("C07.one", len(failed) == 1)
		switch fe.outcome {
		case vFail:
			h.assert("C07.cause", o.class == vcUser && o.uerr == fe.err && o.ucode == fe.code)
			h.assert("C13.root", o.class == vcUser && o.uerr == fe.err && o.ucode == fe.code)
			if o.err != nil && fe.err != nil {
				h.assert("C13.is", errors.Is(o.err, fe.err))
			}
			if o.err != nil && fe.code {
				h.assert("C13.is", errors.Is(o.err, vErrCode(0)))
			}
			if fe.reg == r {
				h.assert("C13.invoke", o.err == error(fe.err))
				verifWitness("invoked-fn-error")
			} else {
				verifWitness("ctor-error")
			}
		case vPanic:
			if w.recover {
				h.assert("C07.cause", o.class == vcPanicErr && o.pval == interface{}(fe.pval))
				h.assert("C13.panicErr", o.class == vcPanicErr && o.pval == interface{}(fe.pval))
				if o.class == vcPanicErr {
					_, isPE := RootCause(o.err).(PanicError)
					h.assert("C13.panicRoot", isPE)
					var de Error
					h.assert("C13.panicNotDig", !errors.As(RootCause(o.err), &de))
				}
				verifWitness("panic-recovered")
			} else {
				h.assert("C13.propagate", o.class == vcPanicked && o.panicv == interface{}(fe.pval))
				h.assert("C07.cause", o.class == vcPanicked && o.panicv == interface{}(fe.pval))
				verifWitness("panic-propagated")
			}
		}
		if fe.reg != r {
			h.assert("C01.once", ran == 0)
		}
	} else {
		h.assert("C13.nouser", o.class != vcUser && o.class != vcPanicErr && o.class != vcPanicked)
	}
	if o.class == vcOK {
		h.assert("C01.once", ran == 1)
		verifWitness("invoke-ok")
		for _, m := range cl.must {
			h.assert("C03.all", m.succeeded() != nil)
			h.assert("C07.retry", m.succeeded() != nil)
			if len(m.execs) > 1 {
				verifWitness("retried")
			}
		}
		if len(cl.must) >= 2 {
			verifWitness("invoke-ok-2deps")
		}
	} else if len(failed) == 0 {
		h.assert("C01.once", ran == 0)
	}
	h.assert("C13.cycle", (o.class == vcCycle) == (o.err != nil && IsCycleDetected(o.err)))
	if !w.resCyc && !w.permCyc {
		h.assert("C13.nocycle", o.class != vcCycle)
	}
	if h.enabled("C05s.") {
		if w.resCyc {
			h.assert("C05s.invoke", o.class == vcCycle)
			verifWitness("invoke-on-cycle")
		}
		if !w.permCyc {
			h.assert("C05s.nofalse", o.class != vcCycle)
		}
		if w.deferV && w.statCyc {
			// deferred verification: the Invoke is where a cycle closed by an
			// earlier Provide has to be reported, cached values or not
			h.assert("C05s.invokeStatic", o.class == vcCycle)
			verifWitness("invoke-on-static-cycle")
		}
		h.assert("C05s.nopanic", o.class != vcPanicked)
	}
	if len(failed) == 0 && !w.deferV && !w.resCyc {
		h.assert("C08.visible", (o.class == vcOK) == !cl.missing)
	}
	if cl.missing {
		if len(failed) == 0 {
			// a dig error; where the graph also has a cycle (deferred verification)
			// the cycle may be what gets reported
			digErr := o.class == vcDig || (o.class == vcCycle && (w.permCyc || w.statCyc || w.resCyc))
			h.assert("C04.err", digErr)
			h.assert("C13.dig", digErr)
		}
		h.assert("C04.err", ran == 0)
		verifWitness("missing")
	} else if len(failed) == 0 && !w.deferV && !w.resCyc && !w.permCyc {
		// "... the graph is acyclic ..." (also through decorator parameters)
		h.assert("C04.ok", o.class == vcOK)
		// ... in particular after earlier failures: a function that failed before is
		// simply run again (no stale "called" mark, no stuck state)
		h.assert("C07.ok", o.class == vcOK)
	}
	// bystanders: functions outside the closure did not run
	for i, reg := range w.regs {
		if !vHas(cl.may, reg) {
			h.assert("C03.only", len(reg.execs) == before[i])
			h.assert("C11.norun", len(reg.execs) == before[i])
			if len(reg.execs) == 0 && reg.accepted {
				verifWitness("bystander")
			}
		}
		if !reg.accepted {
			h.assert("C06.norun", len(reg.execs) == 0)
		}
		// C04: no constructor is entered whose direct dependencies are unavailable
		if len(reg.execs) > before[i] && reg.f.kind == vCtor {
			verifWitness("ctor-ran-in-invoke")
		}
	}
}

func (o vOutcome) panicIsUser(w *vWorld) bool {
	_, ok := o.panicv.(*vPanicVal)
	return ok
}

func (h *vHist) execCounts(w *vWorld) []int {
	c := make([]int, len(w.regs))
	for i, r := range w.regs {
		c[i] = len(r.execs)
	}
	return c
}

// ---- plans ---------------------------------------------------------------------------------

const (
	opScope = iota
	opReg
	opInvoke
)

type vOp struct {
	kind   int
	parent int // opScope
	f      *vFunc
	scope  int
	tag    string
	skip   bool // not applied (differential harnesses)
}

func (h *vHist) options() []Option {
	var opts []Option
	switch h.p.recoverOpt {
	case 1:
		opts = append(opts, RecoverFromPanics())
		h.wRecover = true
	case 2:
		if verifNdBool("recover") {
			opts = append(opts, RecoverFromPanics())
			h.wRecover = true
		}
	}
	switch h.p.deferOpt {
	case 1:
		opts = append(opts, DeferAcyclicVerification())
		h.wDefer = true
	case 2:
		if verifNdBool("defer") {
			opts = append(opts, DeferAcyclicVerification())
			h.wDefer = true
		}
	}
	return opts
}

// genScopes appends scope creations (free number and shape).
func (h *vHist) genScopes(ops []vOp, tag string) []vOp {
	for h.nScopes < h.p.maxScopes && verifNdBool(tag+".mkscope") {
		parent := 0
		if h.nScopes > 1 {
			parent = verifNdInt(tag+".parent", h.nScopes)
		}
		ops = append(ops, vOp{kind: opScope, parent: parent, tag: tag})
		h.nScopes++
	}
	return ops
}

func (h *vHist) genScopeIdx(tag string) int {
	if h.nScopes == 1 {
		return 0
	}
	return verifNdInt(tag+".scope", h.nScopes)
}

func (h *vHist) genReg(ops []vOp, tag string) []vOp {
	kind := vCtor
	nd := 0
	for _, f := range h.funcs {
		if f.kind == vDecor {
			nd++
		}
	}
	if len(h.p.regKinds) > 0 {
		if h.nRegsDrawn < len(h.p.regKinds) {
			kind = h.p.regKinds[h.nRegsDrawn]
		}
	} else if nd < h.p.decorators && verifNdBool(tag+".isdecor") {
		kind = vDecor
	}
	h.nRegsDrawn++
	f := h.genFunc(kind, tag)
	if h.p.distinct {
		h.assumeDistinct(f)
	}
	if n := h.nRegsDrawn - 1; n < len(h.p.regScopes) {
		verifAssume(h.p.regScopes[n] < h.nScopes)
		return append(ops, vOp{kind: opReg, f: f, scope: h.p.regScopes[n], tag: tag})
	}
	return append(ops, vOp{kind: opReg, f: f, scope: h.genScopeIdx(tag), tag: tag})
}

func (h *vHist) genInvoke(ops []vOp, tag string) []vOp {
	f := h.genFunc(vInvoked, tag)
	return append(ops, vOp{kind: opInvoke, f: f, scope: h.genScopeIdx(tag), tag: tag})
}

// skeleton lists the generators of the history, in order.  Each generator
// draws its part of the plan when it is reached, so that assumptions made
// while applying earlier operations prune before later choices are drawn.
func (h *vHist) skeleton() []func() []vOp {
	var steps []func() []vOp
	h.nScopes = 1
	for i := 0; i < h.p.nRegs; i++ {
		i := i
		steps = append(steps, func() []vOp {
			if h.p.scopesFirst && i > 0 {
				return h.genReg(nil, "f"+vItoa(i))
			}
			return h.genReg(h.genScopes(nil, "s"+vItoa(i)), "f"+vItoa(i))
		})
	}
	if h.p.lateFirst {
		for i := 0; i < h.p.lateRegs; i++ {
			i := i
			steps = append(steps, func() []vOp { return h.genReg(nil, "l"+vItoa(i)) })
		}
	}
	for j := 0; j < h.p.nInvokes; j++ {
		j := j
		steps = append(steps, func() []vOp {
			var ops []vOp
			if (h.p.lateScopes || j == 0) && !h.p.scopesFirst {
				ops = h.genScopes(ops, "si"+vItoa(j))
			}
			return h.genInvoke(ops, "i"+vItoa(j))
		})
		if j == h.p.lateAfter && !h.p.lateFirst {
			for i := 0; i < h.p.lateRegs; i++ {
				i := i
				steps = append(steps, func() []vOp { return h.genReg(nil, "l"+vItoa(i)) })
			}
		}
	}
	return steps
}

// apply runs a plan against a world, with the monitors.
func (h *vHist) apply(w *vWorld, ops []vOp) {
	w.onEnter = func(w *vWorld, e *vExec) { h.checkEnter(w, e) }
	for _, op := range ops {
		if op.skip {
			continue
		}
		switch op.kind {
		case opScope:
			w.newScope(op.parent)
			h.afterQuiet(w, op.tag+".scope")
		case opReg:
			before := w.nexec
			cand := &vReg{f: op.f, scope: op.scope, home: op.scope}
			if op.f.export && op.f.kind == vCtor {
				cand.home = 0
			}
			dup, strict, permissive := false, false, false
			if op.f.kind == vCtor && h.enabled("C05s.") || h.enabled("C09.") {
				if op.f.kind == vCtor {
					dup = w.dupKey(op.f, cand.home)
					if !dup {
						strict = w.strictCycle(cand)
						permissive = w.permissiveCycle(cand)
					}
				}
			}
			decorDup := false
			if op.f.kind == vDecor {
				for _, r := range op.f.results {
					if _, ok := w.decoratorAt(op.scope, r.key()); ok {
						decorDup = true
					}
				}
				for i, r := range op.f.results {
					for j := 0; j < i; j++ {
						if op.f.results[j].key().eq(r.key()) {
							decorDup = true
						}
					}
				}
			}
			_, o := w.register(op.f, op.scope)
			if decorDup {
				h.assert("C12.single", o.class == vcDig)
				verifWitness("second-decorator-rejected")
			}
			if op.f.kind == vCtor && (h.enabled("C05s.") || h.enabled("C09.")) {
				if dup {
					h.assert("C09.dup", o.class == vcDig)
					verifWitness("duplicate-key")
				} else {
					if !w.deferV {
						if strict {
							h.assert("C05s.reject", o.class == vcCycle)
							verifWitness("cycle-rejected")
						}
						if !permissive {
							h.assert("C05s.nofalse", o.class != vcCycle)
							h.assert("C09.nodup", o.class == vcOK)
						}
					} else {
						h.assert("C05s.deferaccept", o.class == vcOK)
						if strict {
							verifWitness("cycle-deferred")
						}
					}
				}
			}
			h.assert("C03.reg", w.nexec == before)
			h.assert("C14.nopanic", o.class != vcPanicked)
			if o.class != vcOK && o.class != vcPanicked {
				// a rejection originates in dig: a cycle error or a dig.Error
				h.assert("C13.regdig", o.class == vcCycle || o.class == vcDig)
			}
			if h.p.allAccepted {
				verifAssume(o.class == vcOK)
			}
			if h.p.strictDecor && op.f.kind == vDecor && o.class == vcOK {
				for _, r := range op.f.results {
					if r.group != "" {
						continue
					}
					n := 0
					for _, t := range w.pathToRoot(op.scope) {
						n += len(w.suppliersAt(t, r.key()))
					}
					verifAssume(n > 0)
				}
			}
			w.record(op.tag + ":" + vClassNames[o.class] + vPanicText(o.panicv))
			if o.class == vcCycle {
				verifWitness("provide-cycle")
			}
			if o.class == vcDig {
				verifWitness("provide-rejected")
			}
			h.afterQuiet(w, op.tag)
		case opInvoke:
			cl := w.invokeClosure(op.scope, op.f)
			if h.p.noMissing {
				verifAssume(!cl.missing)
			}
			if h.p.strictDecor {
				// decorators whose own dependencies are missing: what their
				// consumers get is outside the property texts
				for _, d := range w.regs {
					if d.accepted && d.f.kind == vDecor {
						verifAssume(!w.unavailable(d, nil))
					}
				}
			}
			w.resCyc = w.resCycle(op.scope, op.f.params, nil, nil)
			w.permCyc = w.permissiveCycle(nil)
			w.statCyc = w.staticCycle(op.scope, op.f.params)
			w.inv = cl
			before := h.execCounts(w)
			r, o := w.invoke(op.f, op.scope)
			w.inv = nil
			w.record(op.tag + ":" + vClassNames[o.class] + ":ran=" + vItoa(len(r.execs)) + vPanicText(o.panicv))
			h.afterInvoke(w, r, o, cl, before)
			if h.p.visErr && o.err != nil {
				ierr := o.err
				ov := vGuard(func() error {
					if CanVisualizeError(ierr) {
						verifWitness("visualize-error")
						return Visualize(w.c, vDiscard{}, VisualizeError(ierr))
					}
					return nil
				})
				h.assert("C14.nopanic", ov.class != vcPanicked)
			}
		}
	}
}

// afterQuiet exercises the read-only API after a registration or scope
// creation: nothing may execute (C03) and nothing may panic (C14).
func (h *vHist) afterQuiet(w *vWorld, tag string) {
	if !h.p.quietCalls {
		return
	}
	before := w.nexec
	o := vGuard(func() error { _ = w.c.String(); return nil })
	h.assert("C14.nopanic", o.class != vcPanicked)
	o = vGuard(func() error { return Visualize(w.c, vDiscard{}) })
	h.assert("C14.nopanic", o.class != vcPanicked)
	h.assert("C03.reg", w.nexec == before)
}

type vDiscard struct{}

func (vDiscard) Write(b []byte) (int, error) { return len(b), nil }

func (h *vHist) run() {
	w := vNewWorld("A", h.options()...)
	h.w = w
	w.recover, w.deferV = h.wRecover, h.wDefer
	for _, step := range h.skeleton() {
		h.apply(w, step())
	}
}
