//go:build verif

package dig

// C19: Visualize is a faithful, well-formed picture of the container.
// Constructors come from a catalogue of declared functions (distinct IDs,
// concrete types whose names appear in the DOT text).

import (
	"bytes"
	"errors"
	"strings"
)

type vV0 struct{ X int }
type vV1 struct{ X int }
type vV2 struct{ X int }
type vV3 struct{ X int }
type vV4 struct{ X int }

var vC19Fail bool
var vC19FailDec bool

// vdD3 decorates *vV3; it fails when vC19FailDec is set.
func vdD3(v *vV3) (*vV3, error) {
	if vC19FailDec {
		return nil, errors.New("vdD3 failed")
	}
	return v, nil
}

type vcCIn struct {
	In
	A *vV1
	B *vV0 `optional:"true"`
}

type vcG1Out struct {
	Out
	M *vV0 `group:"g"`
}

type vcHIn struct {
	In
	L []*vV0 `group:"g"`
}

type vcPIn struct {
	In
	N *vV0 `name:"a"`
}

func vcA() *vV0      { return &vV0{} }
func vcB(*vV0) *vV1  { return &vV1{} }
func vcC(vcCIn) *vV2 { return &vV2{} }
func vcD() (*vV3, error) {
	if vC19Fail {
		return nil, errors.New("vcD failed")
	}
	return &vV3{}, nil
}
func vcE(*vV3) *vV4  { return &vV4{} }
func vcG1() vcG1Out  { return vcG1Out{M: &vV0{}} }
func vcG2() *vV0     { return &vV0{} } // provided with Group("g")
func vcH(vcHIn) *vV2 { return &vV2{} }
func vcN() *vV0      { return &vV0{} } // provided with Name("a")
func vcP(vcPIn) *vV3 { return &vV3{} }
func vcM(*vV4) *vV1  { return &vV1{} }
func vcX(*vV1) *vV0  { return &vV0{} } // closes a cycle with vcB
func vcGD(*vV4) *vV0 { return &vV0{} } // group feeder with a dependency, provided with Group("g")
func vcGF() (*vV0, error) { // group feeder that may fail, provided with Group("g")
	if vC19Fail {
		return nil, errors.New("vcGF failed")
	}
	return &vV0{}, nil
}

type vcNode struct {
	t        string
	name     string
	group    string
	optional bool
}

type vcDesc struct {
	fn      interface{}
	name    string
	opts    []ProvideOption
	params  []vcNode
	results []vcNode
}

func vCatalogue() []vcDesc {
	return []vcDesc{
		{fn: vcA, name: "vcA", results: []vcNode{{t: "*dig.vV0"}}},
		{fn: vcB, name: "vcB", params: []vcNode{{t: "*dig.vV0"}}, results: []vcNode{{t: "*dig.vV1"}}},
		{fn: vcC, name: "vcC", params: []vcNode{{t: "*dig.vV1"}, {t: "*dig.vV0", optional: true}}, results: []vcNode{{t: "*dig.vV2"}}},
		{fn: vcD, name: "vcD", results: []vcNode{{t: "*dig.vV3"}}},
		{fn: vcE, name: "vcE", params: []vcNode{{t: "*dig.vV3"}}, results: []vcNode{{t: "*dig.vV4"}}},
		{fn: vcG1, name: "vcG1", results: []vcNode{{t: "*dig.vV0", group: "g"}}},
		{fn: vcG2, name: "vcG2", opts: []ProvideOption{Group("g")}, results: []vcNode{{t: "*dig.vV0", group: "g"}}},
		{fn: vcH, name: "vcH", params: []vcNode{{t: "[]*dig.vV0", group: "g"}}, results: []vcNode{{t: "*dig.vV2"}}},
		{fn: vcN, name: "vcN", opts: []ProvideOption{Name("a")}, results: []vcNode{{t: "*dig.vV0", name: "a"}}},
		{fn: vcP, name: "vcP", params: []vcNode{{t: "*dig.vV0", name: "a"}}, results: []vcNode{{t: "*dig.vV3"}}},
		{fn: vcM, name: "vcM", params: []vcNode{{t: "*dig.vV4"}}, results: []vcNode{{t: "*dig.vV1"}}},
		{fn: vcX, name: "vcX", params: []vcNode{{t: "*dig.vV1"}}, results: []vcNode{{t: "*dig.vV0"}}},
		{fn: vcGD, name: "vcGD", opts: []ProvideOption{Group("g")}, params: []vcNode{{t: "*dig.vV4"}}, results: []vcNode{{t: "*dig.vV0", group: "g"}}},
		{fn: vcGF, name: "vcGF", opts: []ProvideOption{Group("g")}, results: []vcNode{{t: "*dig.vV0", group: "g"}}},
	}
}

// ---- a small reader for the DOT dialect Visualize writes ------------------------------------

type vDotCluster struct {
	index   int
	label   string
	pkg     string
	color   string
	results []string
	edges   []vDotEdge
}

type vDotEdge struct {
	to     string
	dashed bool
}

type vDotGroup struct {
	id      string
	color   string
	members []string
}

type vDot struct {
	ok       bool
	why      string
	clusters []*vDotCluster
	groups   []*vDotGroup
	red      []string
	orange   []string
}

// vUnq reads a Go-quoted string at the start of s and returns it with the rest.
func vUnq(s string) (string, string, bool) {
	if len(s) == 0 || s[0] != '"' {
		return "", s, false
	}
	out := ""
	for i := 1; i < len(s); i++ {
		switch s[i] {
		case '\\':
			if i+1 >= len(s) {
				return "", s, false
			}
			out += string(s[i+1])
			i++
		case '"':
			return out, s[i+1:], true
		default:
			out += string(s[i])
		}
	}
	return "", s, false
}

func vParseDot(text string) *vDot {
	d := &vDot{}
	fail := func(why string) *vDot { d.why = why; return d }
	lines := strings.Split(text, "\n")
	if len(lines) < 4 || lines[0] != "digraph {" || lines[len(lines)-1] != "}" {
		return fail("frame")
	}
	var cur *vDotCluster
	var grp *vDotGroup
	depth := 1
	for _, raw := range lines[1 : len(lines)-1] {
		l := strings.TrimSpace(raw)
		switch {
		case l == "" || l == "rankdir=RL;" || l == "graph [compound=true];":
		case strings.HasPrefix(l, "subgraph cluster_") && strings.HasSuffix(l, " {"):
			if cur != nil {
				return fail("nested cluster")
			}
			cur = &vDotCluster{index: len(d.clusters)}
			if l != "subgraph cluster_"+vItoa(cur.index)+" {" {
				return fail("cluster index")
			}
			d.clusters = append(d.clusters, cur)
			depth++
		case l == "}":
			if cur == nil || depth != 2 {
				return fail("unbalanced }")
			}
			depth--
			cur = nil
		case strings.HasPrefix(l, "label = "):
			s, rest, ok := vUnq(l[len("label = "):])
			if !ok || rest != ";" || cur == nil || depth != 2 {
				return fail("label")
			}
			cur.pkg = s
		case strings.HasPrefix(l, "color=") && strings.HasSuffix(l, ";"):
			if cur == nil || depth != 2 {
				return fail("color")
			}
			cur.color = l[len("color=") : len(l)-1]
		case strings.HasPrefix(l, "constructor_"):
			rest := l[len("constructor_"):]
			n := 0
			digits := 0
			for len(rest) > 0 && rest[0] >= '0' && rest[0] <= '9' {
				n = n*10 + int(rest[0]-'0')
				rest = rest[1:]
				digits++
			}
			if digits == 0 || n >= len(d.clusters) {
				return fail("constructor index")
			}
			if strings.HasPrefix(rest, " [shape=plaintext label=") {
				s, r2, ok := vUnq(rest[len(" [shape=plaintext label="):])
				if !ok || r2 != "];" || cur == nil || cur.index != n {
					return fail("constructor node")
				}
				cur.label = s
			} else if strings.HasPrefix(rest, " -> ") {
				to, r2, ok := vUnq(rest[len(" -> "):])
				if !ok || depth != 1 {
					return fail("edge")
				}
				want := " [ltail=cluster_" + vItoa(n)
				if !strings.HasPrefix(r2, want) {
					return fail("edge attrs")
				}
				tail := r2[len(want):]
				e := vDotEdge{to: to}
				switch tail {
				case "];":
				case " style=dashed];":
					e.dashed = true
				default:
					return fail("edge style")
				}
				d.clusters[n].edges = append(d.clusters[n].edges, e)
			} else {
				return fail("constructor line")
			}
		case strings.HasPrefix(l, "\""):
			id, rest, ok := vUnq(l)
			if !ok {
				return fail("quote")
			}
			switch {
			case strings.HasPrefix(rest, " -> "):
				to, r2, ok := vUnq(rest[4:])
				if !ok || r2 != ";" || grp == nil || grp.id != id {
					return fail("group edge")
				}
				grp.members = append(grp.members, to)
			case strings.HasPrefix(rest, " [shape=diamond label=<") && strings.HasSuffix(rest, "];"):
				if cur != nil {
					return fail("group in cluster")
				}
				grp = &vDotGroup{id: id}
				if strings.HasSuffix(rest, " color=red];") {
					grp.color = "red"
				} else if strings.HasSuffix(rest, " color=orange];") {
					grp.color = "orange"
				}
				d.groups = append(d.groups, grp)
			case rest == " [color=red];":
				d.red = append(d.red, id)
			case rest == " [color=orange];":
				d.orange = append(d.orange, id)
			case strings.HasPrefix(rest, " [label=<") && strings.HasSuffix(rest, ">];"):
				if cur == nil {
					return fail("result outside cluster")
				}
				cur.results = append(cur.results, id)
			default:
				return fail("node line: " + l)
			}
		default:
			return fail("unknown line: " + l)
		}
	}
	if depth != 1 {
		return fail("unbalanced {")
	}
	d.ok = true
	return d
}

// ---- expected strings ---------------------------------------------------------------------------

func (n vcNode) paramString() string {
	if n.name != "" {
		return n.t + "[name=" + n.name + "]"
	}
	return n.t
}

func vGroupID(elem, group string) string { return "[type=" + elem + " group=" + group + "]" }

func vHasStr(l []string, s string) bool {
	for _, x := range l {
		if x == s {
			return true
		}
	}
	return false
}

func verifC19run(maxRegs int, withFailure bool) {
	h := &vHist{p: &vProfile{name: "C19", clauses: []string{"C19."}}}
	cat := vCatalogue()
	c := New()
	child := c.Scope("child")
	grand := child.Scope("grandchild")
	type acc struct {
		d     vcDesc
		scope int
	}
	var accepted []acc
	used := map[int]bool{}
	vC19Fail = false
	n := 1 + verifNdInt("nregs", maxRegs)
	for i := 0; i < n; i++ {
		k := verifNdInt("cat"+vItoa(i), len(cat))
		s := verifNdInt("scope"+vItoa(i), 3)
		d := cat[k]
		var err error
		switch s {
		case 0:
			err = c.Provide(d.fn, d.opts...)
		case 1:
			err = child.Provide(d.fn, d.opts...)
		default:
			err = grand.Provide(d.fn, d.opts...)
		}
		verifObserve("provide " + d.name + " scope=" + vItoa(s) + " ok=" + vBoolStr(err == nil))
		if err == nil {
			// the same declared function twice would share one constructor ID
			verifAssume(!used[k])
			used[k] = true
			accepted = append(accepted, acc{d, s})
		} else {
			verifWitness("rejected-registration")
		}
	}
	// decorators are not drawn; a failing one must still be reported faithfully
	decorated := false
	if withFailure && verifNdBool("withdec") {
		ds := verifNdInt("decscope", 3)
		var derr error
		switch ds {
		case 0:
			derr = c.Decorate(vdD3)
		case 1:
			derr = child.Decorate(vdD3)
		default:
			derr = grand.Decorate(vdD3)
		}
		verifObserve("decorate vdD3 scope=" + vItoa(ds) + " ok=" + vBoolStr(derr == nil))
		decorated = derr == nil
	}
	// Visualize lists the root's constructors first, then the child's
	var order []acc
	for _, a := range accepted {
		if a.scope == 0 {
			order = append(order, a)
		}
	}
	for _, a := range accepted {
		if a.scope == 1 {
			order = append(order, a)
		}
	}
	for _, a := range accepted {
		if a.scope == 2 {
			order = append(order, a)
			verifWitness("grandchild-cluster")
		}
	}

	var buf bytes.Buffer
	o := vGuard(func() error { return Visualize(c, &buf) })
	h.assert("C19.nopanic", o.class == vcOK)
	d := vParseDot(buf.String())
	h.assert("C19.syntax", d.ok)
	if !d.ok {
		verifObserve("dot parse failure: " + d.why)
		return
	}
	verifObserve("clusters=" + vItoa(len(d.clusters)) + " groups=" + vItoa(len(d.groups)))
	h.assert("C19.clusters", len(d.clusters) == len(order))
	if len(d.clusters) != len(order) {
		return
	}
	groupMembers := map[string]int{}
	for i, a := range order {
		cl := d.clusters[i]
		h.assert("C19.clusters", cl.label == a.d.name && cl.pkg == "go.uber.org/dig" && cl.color == "")
		h.assert("C19.clusters", len(cl.results) == len(a.d.results))
		for j, r := range a.d.results {
			if j >= len(cl.results) {
				break
			}
			want := r.t
			if r.name != "" {
				want = r.t + "[name=" + r.name + "]"
			}
			if r.group != "" {
				gid := vGroupID(r.t, r.group)
				want = r.t + "[group=" + r.group + "]" + vItoa(groupMembers[gid])
				groupMembers[gid]++
			}
			h.assert("C19.clusters", cl.results[j] == want)
		}
		var wantEdges []vDotEdge
		for _, p := range a.d.params {
			if p.group == "" {
				wantEdges = append(wantEdges, vDotEdge{to: p.paramString(), dashed: p.optional})
			}
		}
		for _, p := range a.d.params {
			if p.group != "" {
				wantEdges = append(wantEdges, vDotEdge{to: vGroupID(p.t[2:], p.group)})
			}
		}
		h.assert("C19.edges", len(cl.edges) == len(wantEdges))
		for j, e := range wantEdges {
			if j < len(cl.edges) {
				h.assert("C19.edges", cl.edges[j] == e)
				if e.dashed {
					verifWitness("dashed-edge")
				}
			}
		}
	}
	// one node per value group, linked to each of its members
	wantGroups := map[string]bool{}
	for _, a := range order {
		for _, p := range a.d.params {
			if p.group != "" {
				wantGroups[vGroupID(p.t[2:], p.group)] = true
			}
		}
		for _, r := range a.d.results {
			if r.group != "" {
				wantGroups[vGroupID(r.t, r.group)] = true
			}
		}
	}
	h.assert("C19.groups", len(d.groups) == len(wantGroups))
	for _, g := range d.groups {
		h.assert("C19.groups", wantGroups[g.id] && len(g.members) == groupMembers[g.id])
		if len(g.members) >= 2 {
			verifWitness("group-2members")
		}
	}
	h.assert("C19.fail", len(d.red) == 0 && len(d.orange) == 0)
	if len(order) >= 2 {
		verifWitness("two-clusters")
	}
	if len(d.groups) > 0 {
		verifWitness("group-node")
	}

	if !withFailure {
		return
	}
	// ---- a failing Invoke and its picture
	vC19Fail, vC19FailDec = false, false
	failMode := 0
	if decorated {
		failMode = verifNdInt("failmode", 3)
	} else if verifNdBool("ctorsfail") {
		failMode = 1
	}
	vC19Fail = failMode == 1
	vC19FailDec = failMode == 2
	target := verifNdInt("target", 5)
	var fn interface{}
	switch target {
	case 0:
		fn = func(*vV2) {}
	case 1:
		fn = func(*vV4) {}
	case 2:
		fn = func(*vV1) {}
	case 3:
		fn = func(vcHIn) {}
	default:
		fn = func(*vV3) {}
	}
	scope := verifNdInt("invscope", 3)
	var ierr error
	oi := vGuard(func() error {
		switch scope {
		case 0:
			ierr = c.Invoke(fn)
		case 1:
			ierr = child.Invoke(fn)
		default:
			ierr = grand.Invoke(fn)
		}
		return ierr
	})
	vC19Fail, vC19FailDec = false, false
	verifObserve("invoke target=" + vItoa(target) + " class=" + vClassNames[oi.class])
	if oi.class == vcOK || oi.class == vcPanicked {
		return
	}
	can := CanVisualizeError(ierr)
	// information exists when the failure is a missing type or a failed
	// constructor / group, i.e. for every dig or user error of an Invoke here
	h.assert("C19.can", can == (oi.class == vcDig || oi.class == vcOther))
	if !can {
		return
	}
	var buf2 bytes.Buffer
	o2 := vGuard(func() error { return Visualize(c, &buf2, VisualizeError(ierr)) })
	h.assert("C19.nopanic", o2.class == vcOK)
	d2 := vParseDot(buf2.String())
	h.assert("C19.syntax", d2.ok)
	if !d2.ok {
		verifObserve("dot parse failure: " + d2.why)
		return
	}
	verifObserve("failed picture: clusters=" + vItoa(len(d2.clusters)) + " red=" + vItoa(len(d2.red)) + " orange=" + vItoa(len(d2.orange)))
	// a root cause is always marked
	h.assert("C19.fail", len(d2.red) >= 1)
	// every remaining cluster is a constructor that failed: coloured, and no
	// successful constructor is left
	for _, cl := range d2.clusters {
		h.assert("C19.fail", cl.color == "red" || cl.color == "orange")
	}
	h.assert("C19.fail", len(d2.clusters) <= len(order))
	// only a constructor that really failed is drawn as a root cause
	for _, cl := range d2.clusters {
		if cl.color == "red" {
			h.assert("C19.fail", failMode == 1 && (cl.label == "vcD" || cl.label == "vcGF"))
		}
	}
	if oi.class == vcOther && failMode == 2 {
		// the decorated value is the root cause; its consumers failed transitively
		h.assert("C19.fail", vHasStr(d2.red, "*dig.vV3"))
		verifWitness("decorator-failure-picture")
	} else if oi.class == vcOther {
		// the failing constructor is the root cause
		found := false
		for _, cl := range d2.clusters {
			if cl.color == "red" && (cl.label == "vcD" || cl.label == "vcGF") {
				found = true
			}
		}
		h.assert("C19.fail", found)
		verifWitness("ctor-failure-picture")
	} else {
		verifWitness("missing-type-picture")
	}
	if len(d2.orange) > 0 {
		verifWitness("transitive-failure")
	}
}

func vBoolStr(b bool) string {
	if b {
		return "true"
	}
	return "false"
}

func verifC19a() { verifC19run(3, false) }
func verifC19b() { verifC19run(2, true) }

func init() {
	verifEntries["verifC19a"] = verifC19a
	verifEntries["verifC19b"] = verifC19b
}
