//go:build verif

package dig

// C14: bad input yields errors, never panics; a rejected input changes
// nothing; String and Visualize never panic afterwards.

import (
	"fmt"
	"reflect"
)

// named slice type with a method (for Group(flatten) + As)
type vNS []*vA

func (vNS) String() string { return "vNS" }

type vUnexp struct {
	In
	x *vA //nolint:unused
}

type vUnexpOK struct {
	In `ignore-unexported:"true"`
	x  *vA //nolint:unused
	Y  *vA `optional:"true"`
}

type vOutUnexp struct {
	Out
	x *vA //nolint:unused
}

type vOutUnexpGrp struct {
	Out
	x *vA `group:"g"` //nolint:unused
	Y *vA `group:"g"`
}

type vOutUnexpName struct {
	Out
	x *vA `name:"a"` //nolint:unused
}

type vInUnexpFirst struct {
	x  *vA //nolint:unused
	In `ignore-unexported:"true"`
	Y  *vA `optional:"true"`
}

type vInUnexpGrp struct {
	In
	x []*vA `group:"g"` //nolint:unused
}

type vPtrEmbed struct{ *In }
type vOutPtrEmbed struct{ *Out }
type vBoth struct {
	In
	Out
}
type vDeepIn struct{ vInner }
type vInner struct {
	In
	A *vA `optional:"true"`
}

// vTags is the menu of struct tags for a single field of a dig.In / dig.Out
// object; well-formed and malformed ones.
var vTags = []string{
	``, `name:"a"`, `optional:"true"`, `optional:"false"`, `optional:"yes"`, `optional:""`,
	`group:"g"`, `group:""`, `group:"g,soft"`, `group:"g,flatten"`, `group:"g,flatten,soft"`, `group:"g,foo"`, `group:",soft"`,
	`name:"a" group:"g"`, `optional:"true" group:"g"`, `name:"a" optional:"true"`, `name:"a` + "`" + `b"`,
	`group:"g" name:""`, `optional:"1"`, `optional:"T"`, `name:"`, `group:g`, `ignore-unexported:"maybe"`,
	`name:"a" name:"b"`, `group:"g,soft,soft"`, `group:",flatten"`, `group:",soft"`,
}

// vFieldTypes: types of the tagged field (pointer, slices of pointer / value /
// struct / interface elements, a plain value)
var vFieldTypes = []reflect.Type{
	vAType, reflect.SliceOf(vAType), reflect.TypeOf([]int{}), reflect.TypeOf([]vA{}), reflect.SliceOf(vI0Type), reflect.TypeOf(0),
	reflect.SliceOf(reflect.SliceOf(vAType)),
}

type vBadInput struct {
	api  int // 0 Provide, 1 Decorate, 2 Invoke
	fn   interface{}
	opts []ProvideOption
	desc string
}

func vMkFn(in, out []reflect.Type, variadic bool) interface{} {
	ft := reflect.FuncOf(in, out, variadic)
	return reflect.MakeFunc(ft, func([]reflect.Value) []reflect.Value {
		res := make([]reflect.Value, len(out))
		for i, o := range out {
			res[i] = reflect.Zero(o)
		}
		return res
	}).Interface()
}

const vNumShapes = 40

// genInput draws one input from the grammar.
func (h *vHist) genInput(tag string) vBadInput {
	in := vBadInput{api: verifNdInt(tag+".api", 3)}
	shape := verifNdInt(tag+".shape", vNumShapes)
	in.desc = "shape" + vItoa(shape)
	t := vAType
	sliceT := reflect.SliceOf(t)
	switch shape {
	case 0:
		in.fn = nil
	case 1:
		in.fn = 42
	case 2:
		in.fn = "fn"
	case 3:
		in.fn = struct{ X int }{1}
	case 4:
		in.fn = &vA{}
	case 5:
		var f func() *vA
		in.fn = f // typed nil function
	case 6:
		in.fn = vMkFn(nil, nil, false)
	case 7:
		in.fn = vMkFn(nil, []reflect.Type{vErrType}, false)
	case 8:
		in.fn = vMkFn(nil, []reflect.Type{t, vErrType, t}, false)
	case 9:
		in.fn = vMkFn([]reflect.Type{reflect.TypeOf(In{})}, []reflect.Type{t}, false)
	case 10:
		in.fn = vMkFn([]reflect.Type{reflect.TypeOf(&In{})}, []reflect.Type{t}, false)
	case 11:
		in.fn = vMkFn(nil, []reflect.Type{reflect.TypeOf(Out{})}, false)
	case 12:
		in.fn = vMkFn(nil, []reflect.Type{reflect.TypeOf(&Out{})}, false)
	case 13:
		in.fn = vMkFn([]reflect.Type{reflect.TypeOf(vUnexp{})}, []reflect.Type{t}, false)
	case 14:
		in.fn = vMkFn([]reflect.Type{reflect.TypeOf(vUnexpOK{})}, []reflect.Type{t}, false)
	case 15:
		in.fn = vMkFn([]reflect.Type{reflect.TypeOf(vPtrEmbed{})}, []reflect.Type{t}, false)
	case 16:
		in.fn = vMkFn(nil, []reflect.Type{reflect.TypeOf(vOutPtrEmbed{})}, false)
	case 17:
		in.fn = vMkFn([]reflect.Type{reflect.TypeOf(vBoth{})}, []reflect.Type{t}, false)
	case 18:
		in.fn = vMkFn(nil, []reflect.Type{reflect.TypeOf(vBoth{})}, false)
	case 19:
		in.fn = vMkFn([]reflect.Type{reflect.TypeOf(vDeepIn{})}, []reflect.Type{t}, false)
	case 20:
		in.fn = vMkFn([]reflect.Type{reflect.TypeOf(&vDeepIn{})}, []reflect.Type{t}, false)
	case 21: // variadic only
		in.fn = vMkFn([]reflect.Type{sliceT}, []reflect.Type{t}, true)
	case 22: // interface, func, map, slice parameter types
		in.fn = vMkFn([]reflect.Type{vI0Type, reflect.TypeOf(func() {}), reflect.TypeOf(map[string]int{}), sliceT}, []reflect.Type{t}, false)
	case 23: // error parameter
		in.fn = vMkFn([]reflect.Type{vErrType}, []reflect.Type{t}, false)
	case 24: // named slice result with flatten + As
		in.fn = vMkFn(nil, []reflect.Type{reflect.TypeOf(vNS{})}, false)
		in.opts = []ProvideOption{Group("g,flatten"), As(new(fmt.Stringer))}
	case 25: // named slice result with As only
		in.fn = vMkFn(nil, []reflect.Type{reflect.TypeOf(vNS{})}, false)
		in.opts = []ProvideOption{As(new(fmt.Stringer))}
	case 26: // a tagged field in a parameter object
		tg := vTags[verifNdInt(tag+".tag", len(vTags))]
		fti := verifNdInt(tag+".ft", len(vFieldTypes))
		ft := vFieldTypes[fti]
		in.desc += ":ft" + vItoa(fti)
		st := reflect.StructOf([]reflect.StructField{{Name: "In", Type: vInType, Anonymous: true}, {Name: "X", Type: ft, Tag: reflect.StructTag(tg)}})
		in.fn = vMkFn([]reflect.Type{st}, []reflect.Type{reflect.TypeOf(&vT0{})}, false)
		in.desc += ":" + tg
	case 27: // a tagged field in a result object
		tg := vTags[verifNdInt(tag+".tag", len(vTags))]
		fti := verifNdInt(tag+".ft", len(vFieldTypes))
		ft := vFieldTypes[fti]
		in.desc += ":ft" + vItoa(fti)
		st := reflect.StructOf([]reflect.StructField{{Name: "Out", Type: vOutType, Anonymous: true}, {Name: "X", Type: ft, Tag: reflect.StructTag(tg)}})
		in.fn = vMkFn(nil, []reflect.Type{st}, false)
		in.desc += ":" + tg
	case 28: // nested result object inside a result object, with options
		inner := reflect.StructOf([]reflect.StructField{{Name: "Out", Type: vOutType, Anonymous: true}, {Name: "X", Type: t}})
		st := reflect.StructOf([]reflect.StructField{{Name: "Out", Type: vOutType, Anonymous: true}, {Name: "N", Type: inner}, {Name: "Y", Type: t, Tag: `name:"a"`}})
		in.fn = vMkFn(nil, []reflect.Type{st}, false)
	case 29: // array parameter
		in.fn = vMkFn([]reflect.Type{reflect.ArrayOf(2, t)}, []reflect.Type{reflect.TypeOf(&vT0{})}, false)
	case 30: // huge array of zero-size elements (a legal Go type of size 0)
		in.fn = vMkFn([]reflect.Type{reflect.ArrayOf(1<<62, reflect.TypeOf(struct{}{}))}, []reflect.Type{reflect.TypeOf(&vT0{})}, false)
	case 31: // array result
		in.fn = vMkFn(nil, []reflect.Type{reflect.ArrayOf(2, t)}, false)
	case 32: // slice result; the options decide (flatten)
		in.fn = vMkFn(nil, []reflect.Type{sliceT}, false)
	case 34:
		in.fn = func() vOutUnexp { return vOutUnexp{} }
	case 35:
		in.fn = func() vOutUnexpGrp { return vOutUnexpGrp{x: &vA{}, Y: &vA{}} }
	case 36:
		in.fn = func() vOutUnexpName { return vOutUnexpName{} }
	case 37:
		in.fn = func(vInUnexpFirst) *vT0 { return &vT0{} }
	case 38:
		in.fn = func(vInUnexpGrp) *vT0 { return &vT0{} }
	case 33: // feeds the group it consumes: rejected for a cycle unless verification is deferred
		st := reflect.StructOf([]reflect.StructField{{Name: "In", Type: vInType, Anonymous: true}, {Name: "X", Type: sliceT, Tag: `group:"g"`}})
		in.fn = vMkFn([]reflect.Type{st}, []reflect.Type{t}, false)
		in.opts = []ProvideOption{Group("g")}
	default: // plain valid constructor; the options decide
		in.fn = vMkFn(nil, []reflect.Type{t}, false)
	}
	if in.api == 0 && in.opts == nil && (shape == 26 || shape == 27) {
		// tagged fields: the tag x field-type grid is large; a small option menu
		switch verifNdInt(tag+".topt", 4) {
		case 1:
			in.opts = []ProvideOption{Name("a")}
		case 2:
			in.opts = []ProvideOption{Group("g")}
		case 3:
			in.opts = []ProvideOption{As(new(vI0))}
		}
	} else if in.api == 0 && in.opts == nil {
		switch verifNdInt(tag+".opt", 21) {
		case 17:
			in.opts = []ProvideOption{Group("g"), As(42)}
		case 18:
			in.opts = []ProvideOption{Group("g"), As(nil)}
		case 19:
			in.opts = []ProvideOption{Group("g"), As(new(vA))}
		case 20:
			in.opts = []ProvideOption{Group("g"), As(new(vI0), new(vPlainIface))}
		case 14:
			in.opts = []ProvideOption{Group(",flatten")}
		case 15:
			in.opts = []ProvideOption{Group(",soft")}
		case 16:
			in.opts = []ProvideOption{Group(","), Name("")}
		case 1:
			in.opts = []ProvideOption{Name("a"), Group("g")}
		case 2:
			in.opts = []ProvideOption{Name("a`b")}
		case 3:
			in.opts = []ProvideOption{Group("g`")}
		case 4:
			in.opts = []ProvideOption{As(nil)}
		case 5:
			in.opts = []ProvideOption{As(42)}
		case 6:
			in.opts = []ProvideOption{As(new(vA))}
		case 7:
			in.opts = []ProvideOption{As(new(vI0), new(fmt.Stringer))}
		case 8:
			in.opts = []ProvideOption{LocationForPC(0)}
		case 9:
			in.opts = []ProvideOption{FillProvideInfo(nil)}
		case 10:
			in.opts = []ProvideOption{WithProviderCallback(nil)}
		case 11:
			in.opts = []ProvideOption{Group("g,soft")}
		case 12:
			in.opts = []ProvideOption{Group("g,flatten")}
		case 13:
			in.opts = []ProvideOption{Group(""), Name(""), Export(true), As()}
		}
	}
	return in
}

func (in vBadInput) apply(s *Scope) vOutcome {
	switch in.api {
	case 0:
		return vGuard(func() error { return s.Provide(in.fn, in.opts...) })
	case 1:
		return vGuard(func() error { return s.Decorate(in.fn) })
	}
	return vGuard(func() error { return s.Invoke(in.fn) })
}

func verifC14run(p *vProfile) {
	h := &vHist{p: p}
	a, b := h.newWorlds(nil, nil)
	// an accepted feeder of group g that every later rejection must leave alone
	for _, w := range []*vWorld{a, b} {
		w := w
		o := vGuard(func() error { return w.c.Provide(vC14Feeder, Group("g")) })
		verifAssume(o.class == vcOK)
	}
	steps := h.skeleton()
	pos := verifNdInt("inp.pos", p.nRegs+1)
	for i, step := range steps {
		if i == pos {
			in := h.genInput("inp")
			s := 0
			if len(a.scopes) > 1 {
				s = verifNdInt("inp.scope", len(a.scopes))
			}
			o := in.apply(a.scopes[s])
			h.assert("C14.nopanic|api="+vItoa(in.api)+","+in.desc+vOptDesc(in.opts), o.class != vcPanicked)
			verifObserve("input " + in.desc + " api=" + vItoa(in.api) + " -> " + vClassNames[o.class] + vPanicText(o.panicv))
			if o.class == vcPanicked {
				verifAssume(false)
			}
			h.afterQuiet(a, "inp")
			if o.class == vcOK {
				// accepted: the twin gets it too
				ob := in.apply(b.scopes[s])
				h.assert("C14.same", ob.class == vcOK)
				verifWitness("input-accepted")
			} else {
				verifWitness("input-rejected")
			}
			// whatever was accepted can be consumed without a panic, and a
			// rejected input has changed nothing a consumer can see
			if in.api != 2 {
				pa := vProbe(a.scopes[s], o.class == vcOK)
				pb := vProbe(b.scopes[s], o.class == vcOK)
				h.assert("C14.nopanic|probe,api="+vItoa(in.api)+","+in.desc+vOptDesc(in.opts), !vHasPanic(pa))
				if o.class == vcOK {
					h.assert("C14.same", pa == pb)
				} else {
					h.assert("C14.notrace|probe,api="+vItoa(in.api)+","+in.desc, pa == pb)
				}
				verifObserve("probes " + pa)
			}
			a.takeSeg(true)
			b.takeSeg(true)
		}
		ops := step()
		h.apply(a, ops)
		h.apply(b, ops)
		sa, sb := a.takeSeg(true), b.takeSeg(true)
		if i >= pos {
			h.assert("C14.notrace", sa == sb)
		}
	}
}

func verifC14a() {
	verifC14run(&vProfile{name: "C14a", clauses: []string{"C14."},
		maxScopes: 1, nRegs: 1, maxParams: 0, maxResults: 1, pForms: 1, rForms: 1, names: 1, as: true,
		faults: 1, nInvokes: 1, invParams: 1, quietCalls: true})
}

func init() { verifEntries["verifC14a"] = verifC14a }

func vOptDesc(opts []ProvideOption) string {
	s := ""
	for _, o := range opts {
		s += "," + fmt.Sprint(o)
	}
	return s
}

type vProbeG struct {
	In
	X []*vA `group:"g"`
}

type vProbeN struct {
	In
	X *vA `name:"a"`
}

type vProbeS struct {
	In
	X []*vA `group:"g,soft"`
}

// vProbe consumes, from scope s, the keys an accepted input may have been
// registered under and reports the verdict classes.
func vProbe(s *Scope, all bool) string {
	n := 0 // what the consumers saw: group sizes, nil-ness
	fns := []interface{}{func(in vProbeG) { n += 1 + len(in.X) }, func(x *vA) {
		if x != nil {
			n += 100
		}
	}}
	if all {
		fns = append(fns, func([]*vA) {}, func(vProbeN) {}, func(in vProbeS) { n += 1000 * (1 + len(in.X)) }, func(vI0) {}, func(*vT0) {})
	}
	out := ""
	for _, fn := range fns {
		fn := fn
		o := vGuard(func() error { return s.Invoke(fn) })
		out += vClassNames[o.class] + vPanicText(o.panicv) + ";"
	}
	return out + "seen=" + vItoa(n)
}

func vHasPanic(s string) bool {
	for i := 0; i+8 <= len(s); i++ {
		if s[i:i+8] == "panicked" {
			return true
		}
	}
	return false
}

func vC14Feeder() *vA { return &vA{Tok: 7} }
