//go:build verif

package dig

import "reflect"

// C18: ProvideInfo / DecorateInfo / InvokeInfo report exactly what was declared.

type vIn struct {
	t        reflect.Type
	name     string
	group    string
	optional bool
}

// expectInputs flattens the declared parameters in Go-signature order.
func (f *vFunc) expectInputs() []vIn {
	var out []vIn
	add := func(p *vParam) {
		out = append(out, vIn{t: p.goType(), name: p.name, group: p.group, optional: p.optional})
	}
	for _, p := range f.params {
		if p.form == 0 {
			add(p)
		}
	}
	for _, p := range f.params {
		if p.form == 2 {
			add(p)
		}
	}
	for _, p := range f.params {
		if p.form == 1 {
			add(p)
		}
	}
	return out
}

func (f *vFunc) expectOutputs() []vIn {
	var out []vIn
	add := func(r *vResult) {
		if r.whole {
			// a decorator replacing a whole group declares (and dig reports) the slice type
			out = append(out, vIn{t: r.goType(), group: r.group})
			return
		}
		for _, k := range r.keys() {
			out = append(out, vIn{t: k.t, name: k.name, group: k.group})
		}
	}
	for _, r := range f.results {
		if r.form == 0 {
			add(r)
		}
	}
	for _, r := range f.results {
		if r.form == 1 {
			add(r)
		}
	}
	return out
}

func (h *vHist) checkInputs(f *vFunc, got []*Input) {
	want := f.expectInputs()
	h.assert("C18.inputs", len(got) == len(want))
	if len(got) != len(want) {
		return
	}
	for i, w := range want {
		g := got[i]
		h.assert("C18.inputs", g != nil && g.t == w.t && g.name == w.name && g.group == w.group && g.optional == w.optional)
		if w.optional {
			verifWitness("info-optional")
		}
		if w.group != "" {
			verifWitness("info-group")
		}
	}
	if len(want) >= 2 {
		verifWitness("info-2inputs")
	}
}

func (h *vHist) checkOutputs(f *vFunc, got []*Output) {
	want := f.expectOutputs()
	h.assert("C18.outputs", len(got) == len(want))
	if len(got) != len(want) {
		return
	}
	for i, w := range want {
		g := got[i]
		h.assert("C18.outputs", g != nil && g.t == w.t && g.name == w.name && g.group == w.group)
	}
	if len(want) >= 2 {
		verifWitness("info-2outputs")
	}
}

func verifC18run(p *vProfile) {
	h := &vHist{p: p}
	h.nScopes = 1
	c := New()
	mk := func(f *vFunc) interface{} {
		return reflect.MakeFunc(f.typ, func([]reflect.Value) []reflect.Value {
			res := make([]reflect.Value, len(f.outTypes))
			for i, o := range f.outTypes {
				res[i] = reflect.Zero(o)
			}
			return res
		}).Interface()
	}
	// Provide
	f := h.genFunc(vCtor, "f")
	var info ProvideInfo
	r := &vReg{f: f}
	opts := append(f.provideOpts(r, nil), FillProvideInfo(&info))
	o := vGuard(func() error { return c.Provide(mk(f), opts...) })
	verifObserve("provide:" + vClassNames[o.class])
	if o.class == vcOK {
		h.checkInputs(f, info.Inputs)
		h.checkOutputs(f, info.Outputs)
		verifWitness("provide-info")
		// the same registration again is a duplicate unless it only feeds groups
		sentinel := &Input{name: "sentinel"}
		info2 := ProvideInfo{ID: 12345, Inputs: []*Input{sentinel}}
		opts2 := append(f.provideOpts(r, nil), FillProvideInfo(&info2))
		if verifNdBool("f.locpc") {
			// reporting another source location does not change which function it is
			opts2 = append(opts2, LocationForPC(reflect.ValueOf(vcA).Pointer()))
		}
		o2 := vGuard(func() error { return c.Provide(mk(f), opts2...) })
		if o2.class != vcOK {
			h.assert("C18.untouched", info2.ID == 12345 && len(info2.Inputs) == 1 && info2.Inputs[0] == sentinel && info2.Outputs == nil)
			verifWitness("rejected-info-untouched")
		} else {
			h.assert("C18.sameid", info2.ID == info.ID)
			// an accepted call rewrites a reused (pre-populated) Info struct completely
			h.checkInputs(f, info2.Inputs)
			h.checkOutputs(f, info2.Outputs)
			verifWitness("reused-info")
		}
		// a second constructor (it may close a cycle with the first, duplicate one
		// of its keys, or be fine) with a pre-populated Info struct
		if p.lateRegs == 0 {
			goto decorate
		}
		g := h.genFunc(vCtor, "g")
		sentinel3 := &Output{name: "sentinel"}
		info3 := ProvideInfo{ID: 999, Outputs: []*Output{sentinel3}}
		rg := &vReg{f: g}
		opts3 := append(g.provideOpts(rg, nil), FillProvideInfo(&info3))
		target := c.scope
		if verifNdBool("g.child") {
			// a sibling registration: no conflict with the first constructor's keys
			target = c.Scope("child")
		}
		o3 := vGuard(func() error { return target.Provide(mk(g), opts3...) })
		verifObserve("provide2:" + vClassNames[o3.class])
		if o3.class == vcOK {
			h.checkInputs(g, info3.Inputs)
			h.checkOutputs(g, info3.Outputs)
		} else {
			h.assert("C18.untouched", info3.ID == 999 && info3.Inputs == nil && len(info3.Outputs) == 1 && info3.Outputs[0] == sentinel3)
			if o3.class == vcCycle {
				verifWitness("cycle-rejected-info-untouched")
			}
		}
	} else {
		h.assert("C18.untouched", info.ID == 0 && info.Inputs == nil && info.Outputs == nil)
	}
decorate:
	// Decorate
	if p.decorators > 0 {
		d := h.genFunc(vDecor, "d")
		var di DecorateInfo
		od := vGuard(func() error { return c.Decorate(mk(d), FillDecorateInfo(&di)) })
		verifObserve("decorate:" + vClassNames[od.class])
		if od.class == vcOK {
			h.checkInputs(d, di.Inputs)
			h.checkOutputs(d, di.Outputs)
			verifWitness("decorate-info")
			// a second decorator for the same key is rejected
			di2 := DecorateInfo{ID: 777}
			od2 := vGuard(func() error { return c.Decorate(mk(d), FillDecorateInfo(&di2)) })
			h.assert("C18.untouched", od2.class != vcOK && di2.ID == 777 && di2.Inputs == nil && di2.Outputs == nil)
		}
	}
	// Invoke
	g := h.genFunc(vInvoked, "i")
	var ii InvokeInfo
	oi := vGuard(func() error { return c.Invoke(mk(g), FillInvokeInfo(&ii)) })
	verifObserve("invoke:" + vClassNames[oi.class])
	if oi.class == vcOK {
		h.checkInputs(g, ii.Inputs)
		verifWitness("invoke-info")
	}
}

func verifC18a() {
	verifC18run(&vProfile{name: "C18a", clauses: []string{"C18."},
		maxScopes: 1, maxParams: 1, maxResults: 2, pForms: 2, rForms: 2, names: 2, groups: true, flatten: true,
		optional: true, variadic: true, faults: 1, invParams: 0})
}

func verifC18c() { // nested objects, soft groups, decorators, two parameters
	verifC18run(&vProfile{name: "C18c", clauses: []string{"C18."},
		maxScopes: 1, maxParams: 2, maxResults: 1, pForms: 3, rForms: 1, names: 1, groups: true, soft: true,
		optional: true, faults: 1, invParams: 1, decorators: 1})
}

func verifC18b() { // As
	verifC18run(&vProfile{name: "C18b", clauses: []string{"C18."},
		maxScopes: 1, maxParams: 1, maxResults: 1, pForms: 2, rForms: 1, names: 2, groups: true, as: true,
		faults: 2, invParams: 1})
}

func verifC18d() { // a second constructor that may close a cycle with the first or duplicate its key
	verifC18run(&vProfile{name: "C18d", clauses: []string{"C18."},
		maxScopes: 1, maxParams: 1, maxResults: 1, pForms: 2, rForms: 1, names: 2, optional: true, faults: 1, invParams: 0, lateRegs: 1})
}

func verifC18e() { // two constructors with result objects (possibly the same Out struct type) and different As lists
	verifC18run(&vProfile{name: "C18e", clauses: []string{"C18."},
		maxScopes: 1, maxParams: 0, maxResults: 1, pForms: 1, rForms: 2, names: 2, as: true, asObj: true, faults: 1, invParams: 0, lateRegs: 1})
}

func verifC18f() { // As lists of one to three interfaces on positional results, unnamed, named and grouped
	// (As next to a grouped field of a result object is documented as unsupported and dig ignores it there: not drawn)
	verifC18run(&vProfile{name: "C18f", clauses: []string{"C18."},
		maxScopes: 1, maxParams: 0, maxResults: 2, pForms: 1, rForms: 1, names: 2, groups: true, as: true, as3: true,
		faults: 1, invParams: 0})
}

func init() {
	verifEntries["verifC18f"] = verifC18f
	verifEntries["verifC18e"] = verifC18e
	verifEntries["verifC18d"] = verifC18d
	verifEntries["verifC18a"] = verifC18a
	verifEntries["verifC18b"] = verifC18b
	verifEntries["verifC18c"] = verifC18c
}
