//go:build verif

package dig

// Reference model: a functional reading of doc.go and the property statements
// over the *descriptors* of accepted registrations (never over dig's state).

type vSup struct {
	reg *vReg
	res int
}

func (w *vWorld) onStack(r *vReg) bool {
	for _, e := range w.stack {
		if e.reg == r {
			return true
		}
	}
	return false
}

// suppliersAt lists accepted constructors living in scope t that produce key k.
func (w *vWorld) suppliersAt(t int, k vKey) []vSup {
	var out []vSup
	for _, r := range w.regs {
		if !r.accepted || r.f.kind != vCtor || r.home != t {
			continue
		}
		for i, res := range r.f.results {
			if res.hasKey(k) {
				out = append(out, vSup{r, i})
			}
		}
	}
	return out
}

// decoratorAt returns the accepted decorator registered in scope t for key k.
func (w *vWorld) decoratorAt(t int, k vKey) (vSup, bool) {
	for _, r := range w.regs {
		if !r.accepted || r.f.kind != vDecor || r.scope != t {
			continue
		}
		for i, res := range r.f.results {
			if res.key().eq(k) {
				return vSup{r, i}, true
			}
		}
	}
	return vSup{}, false
}

// resolveDecor finds the nearest enclosing decorator for k that is not being
// built right now and is not self.
func (w *vWorld) resolveDecor(s int, k vKey, self *vReg) (vSup, bool) {
	return w.resolveDecorX(s, k, vExcl(self, nil))
}

func vExcl(self *vReg, excl []*vReg) []*vReg {
	if self != nil && self.f.kind == vDecor {
		return append(append([]*vReg(nil), excl...), self)
	}
	return excl
}

// resolveDecorX skips the decorators in excl (those that would be on dig's
// stack at this point of a hypothetical resolution).
func (w *vWorld) resolveDecorX(s int, k vKey, excl []*vReg) (vSup, bool) {
	for _, t := range w.pathToRoot(s) {
		if d, ok := w.decoratorAt(t, k); ok && !vHas(excl, d.reg) && !w.onStack(d.reg) {
			return d, true
		}
	}
	return vSup{}, false
}

func (w *vWorld) resolveX(s int, k vKey, excl []*vReg) (vSup, bool) {
	if d, ok := w.resolveDecorX(s, k, excl); ok {
		return d, true
	}
	for _, t := range w.pathToRoot(s) {
		if ps := w.suppliersAt(t, k); len(ps) > 0 {
			return ps[0], true
		}
	}
	return vSup{}, false
}

// resolve returns the expected supplier of single key k for a consumer
// resolving from scope s.
func (w *vWorld) resolve(s int, k vKey, self *vReg) (vSup, bool) {
	return w.resolveX(s, k, vExcl(self, nil))
}

// feeders lists all visible constructors feeding group key k from scope s.
func (w *vWorld) feeders(s int, k vKey) []vSup {
	var out []vSup
	for _, t := range w.pathToRoot(s) {
		out = append(out, w.suppliersAt(t, k)...)
	}
	return out
}

func (w *vWorld) resScope(r *vReg) int { return r.scope }

// allFrom reports whether every element of a received group was produced by r.
func (w *vWorld) allFrom(rc vRecv, r *vReg) bool {
	for _, el := range rc.list {
		v := w.findVal(el.ptr)
		if el.isNil || v == nil || v.by.reg != r {
			return false
		}
	}
	// an empty list is r's output only if r has run and returned nothing
	return len(rc.list) > 0 || r.succeeded() != nil
}

// buildingFor reports whether decorator d has not produced its values yet and
// consumer r lies in the dependency closure of d's parameters, so that r may be
// running because dig is building d's arguments (d is then on dig's stack and
// is skipped by every resolution below it).
func (w *vWorld) buildingFor(d, r *vReg) bool {
	if d == r || d.succeeded() != nil {
		return false
	}
	// structural dependency: computed as if nothing were running (r itself is on
	// the harness stack right now and would otherwise be skipped)
	saved := w.stack
	w.stack = nil
	cl := &vClosure{}
	w.closureX(w.resScope(d), d.f.params, vExcl(d, nil), cl, false)
	w.stack = saved
	return vHas(cl.may, r) && w.digBuilding(d)
}

// digBuilding reports whether dig itself has decorator d on its stack right
// now.  The harness cannot see d's arguments being built (d's body has not been
// entered yet), so it reads the state dig keeps in the decorator node.  It is
// used only together with the structural condition in buildingFor, and only to
// accept the value the decorator itself would see.
func (w *vWorld) digBuilding(d *vReg) bool {
	for _, res := range d.f.results {
		k := key{t: res.t, name: res.name, group: res.group}
		if n := w.scopes[d.scope].decorators[k]; n != nil && n.State() == decoratorOnStack {
			return true
		}
	}
	return false
}

// unavailable reports whether r cannot be built because a required
// dependency is (transitively) missing.
func (w *vWorld) unavailable(r *vReg, visiting []*vReg) bool {
	return w.unavailableX(r, visiting, nil)
}

func (w *vWorld) unavailableX(r *vReg, visiting []*vReg, excl []*vReg) bool {
	excl = vExcl(r, excl)
	for _, v := range visiting {
		if v == r {
			return false
		}
	}
	if r.succeeded() != nil {
		return false
	}
	visiting = append(visiting, r)
	for _, p := range r.f.params {
		if p.group != "" {
			if p.soft {
				continue
			}
			if _, ok := w.resolveDecorX(w.resScope(r), p.key(), excl); ok {
				continue
			}
			for _, fd := range w.feeders(w.resScope(r), p.key()) {
				if w.unavailableX(fd.reg, visiting, excl) {
					return true
				}
			}
			continue
		}
		sup, ok := w.resolveX(w.resScope(r), p.key(), excl)
		if !ok {
			if !p.optional {
				return true
			}
			continue
		}
		if p.optional {
			continue
		}
		if w.unavailableX(sup.reg, visiting, excl) {
			return true
		}
	}
	return false
}

type vClosure struct {
	may     []*vReg // upper bound of what an Invoke may execute
	must    []*vReg // lower bound of what a successful Invoke has executed
	missing bool    // a required dependency is unavailable
}

func vHas(l []*vReg, r *vReg) bool {
	for _, x := range l {
		if x == r {
			return true
		}
	}
	return false
}

// closure computes the dependency closure of params resolved from scope s.
func (w *vWorld) closure(s int, params []*vParam, self *vReg, cl *vClosure, must bool) {
	w.closureX(s, params, vExcl(self, nil), cl, must)
}

func (w *vWorld) closureX(s int, params []*vParam, excl []*vReg, cl *vClosure, must bool) {
	for _, p := range params {
		if p.group != "" {
			if d, ok := w.resolveDecorX(s, p.key(), excl); ok {
				w.addClosure(d.reg, cl, must, excl)
				continue
			}
			if p.soft {
				continue
			}
			for _, fd := range w.feeders(s, p.key()) {
				w.addClosure(fd.reg, cl, must, excl)
			}
			continue
		}
		sup, ok := w.resolveX(s, p.key(), excl)
		if !ok {
			if !p.optional && must {
				cl.missing = true
			}
			continue
		}
		m := must
		if p.optional && w.unavailableX(sup.reg, nil, excl) {
			m = false
		}
		if m && w.unavailableX(sup.reg, nil, excl) {
			cl.missing = true
		}
		w.addClosure(sup.reg, cl, m, excl)
	}
}

func (w *vWorld) addClosure(r *vReg, cl *vClosure, must bool, excl []*vReg) {
	inMay := vHas(cl.may, r)
	inMust := vHas(cl.must, r)
	if inMay && (inMust || !must) {
		return
	}
	if !inMay {
		cl.may = append(cl.may, r)
	}
	if must && !inMust {
		cl.must = append(cl.must, r)
	}
	if r.succeeded() != nil {
		return // already built: its dependencies are not demanded again
	}
	w.closureX(w.resScope(r), r.f.params, vExcl(r, excl), cl, must)
}

func (w *vWorld) invokeClosure(s int, f *vFunc) *vClosure {
	cl := &vClosure{}
	w.closure(s, f.params, nil, cl, true)
	return cl
}

// ---- dependency-cycle models (C05) ----------------------------------------------------------

// depends reports whether some parameter of f is fed by a result of g
// (plain, named, optional, object-field and group edges alike).
func vDepends(f, g *vReg) bool {
	for _, p := range f.f.params {
		for _, r := range g.f.results {
			if r.hasKey(p.key()) {
				return true
			}
		}
	}
	return false
}

func (w *vWorld) ctors(extra *vReg) []*vReg {
	var out []*vReg
	for _, r := range w.regs {
		if r.accepted && r.f.kind == vCtor {
			out = append(out, r)
		}
	}
	if extra != nil {
		out = append(out, extra)
	}
	return out
}

func vCyclic(nodes []*vReg, edge func(f, g *vReg) bool) bool {
	state := make([]int, len(nodes))
	var dfs func(i int) bool
	dfs = func(i int) bool {
		state[i] = 1
		for j := range nodes {
			if !edge(nodes[i], nodes[j]) {
				continue
			}
			if state[j] == 1 {
				return true
			}
			if state[j] == 0 && dfs(j) {
				return true
			}
		}
		state[i] = 2
		return false
	}
	for i := range nodes {
		if state[i] == 0 && dfs(i) {
			return true
		}
	}
	return false
}

// cycleInView reports a cycle among the constructors visible from scope s.
func (w *vWorld) cycleInView(s int, extra *vReg) bool {
	var nodes []*vReg
	for _, r := range w.ctors(extra) {
		if w.isAncestorOrSelf(r.home, s) {
			nodes = append(nodes, r)
		}
	}
	return vCyclic(nodes, vDepends)
}

// strictCycle: some single scope sees a cycle.
func (w *vWorld) strictCycle(extra *vReg) bool {
	for s := range w.scopes {
		if w.cycleInView(s, extra) {
			return true
		}
	}
	return false
}

// permissiveCycle: a cycle under the most permissive reading.  Nodes are the
// accepted constructors and decorators; a consumer depends on every
// constructor producing, and every decorator decorating, one of its
// parameter keys, provided the two live on one root path.
func (w *vWorld) permissiveCycle(extra *vReg) bool {
	nodes := w.ctors(extra)
	for _, r := range w.regs {
		if r.accepted && r.f.kind == vDecor {
			nodes = append(nodes, r)
		}
	}
	return vCyclic(nodes, func(f, g *vReg) bool {
		if f == g && f.f.kind == vDecor {
			return false // a decorator consuming its own key is not a cycle
		}
		fs, gs := f.home, g.home
		if f.f.kind == vDecor {
			fs = f.scope
		}
		if g.f.kind == vDecor {
			gs = g.scope
		}
		return (w.isAncestorOrSelf(fs, gs) || w.isAncestorOrSelf(gs, fs)) && vDepends(f, g)
	})
}

// resCycle reports whether resolving params from scope s runs into a
// constructor that is already being resolved (directly or through the
// parameters of a decorator).
func (w *vWorld) resCycle(s int, params []*vParam, self *vReg, path []*vReg) bool {
	return w.resCycleX(s, params, vExcl(self, nil), path)
}

func (w *vWorld) resCycleX(s int, params []*vParam, excl []*vReg, path []*vReg) bool {
	for _, p := range params {
		var sups []vSup
		if p.group != "" {
			if d, ok := w.resolveDecorX(s, p.key(), excl); ok {
				sups = []vSup{d}
			} else if p.soft {
				continue
			} else {
				sups = w.feeders(s, p.key())
			}
		} else {
			sup, ok := w.resolveX(s, p.key(), excl)
			if !ok {
				continue
			}
			sups = []vSup{sup}
		}
		for _, sup := range sups {
			if sup.reg.succeeded() != nil {
				continue
			}
			if sup.reg.f.kind == vCtor && vHas(path, sup.reg) {
				return true
			}
			np := path
			if sup.reg.f.kind == vCtor {
				np = append(append([]*vReg(nil), path...), sup.reg)
			}
			if w.resCycleX(w.resScope(sup.reg), sup.reg.f.params, vExcl(sup.reg, excl), np) {
				return true
			}
		}
	}
	return false
}

// dupKey reports whether registering f with home scope t provides a single
// key twice or one the scope already provides.
func (w *vWorld) dupKey(f *vFunc, t int) bool {
	var seen []vKey
	for _, r := range f.results {
		if r.group != "" {
			continue
		}
		for _, k := range r.keys() {
			for _, s := range seen {
				if s.eq(k) {
					return true
				}
			}
			seen = append(seen, k)
			if len(w.suppliersAt(t, k)) > 0 {
				return true
			}
		}
	}
	return false
}

// staticCycle reports whether a cycle among the accepted constructors visible
// from scope s (every provider of a key in the scope chain counts, as in the
// graph dig verifies) can be reached from params, whether or not some of the
// constructors on it have already been built.
func (w *vWorld) staticCycle(s int, params []*vParam) bool {
	var nodes []*vReg
	for _, r := range w.ctors(nil) {
		if w.isAncestorOrSelf(r.home, s) {
			nodes = append(nodes, r)
		}
	}
	// reachable set
	reach := make([]bool, len(nodes))
	var mark func(i int)
	mark = func(i int) {
		if reach[i] {
			return
		}
		reach[i] = true
		for j := range nodes {
			if vDepends(nodes[i], nodes[j]) {
				mark(j)
			}
		}
	}
	for i, n := range nodes {
		for _, p := range params {
			for _, r := range n.f.results {
				if r.hasKey(p.key()) {
					mark(i)
				}
			}
		}
	}
	var sub []*vReg
	for i, n := range nodes {
		if reach[i] {
			sub = append(sub, n)
		}
	}
	return vCyclic(sub, vDepends)
}
