//go:build verif

package dig

// Reference model: a functional reading of doc.go and the property statements
// over the *descriptors* of accepted registrations (never over dig's state).

type vSup struct {
	reg *vReg
	res int
}

func (w *vWorld) onStack(r *vReg) bool {
	for _, e := range w.stack {
		if e.reg == r {
			return true
		}
	}
	return false
}

// suppliersAt lists accepted constructors living in scope t that produce key k.
func (w *vWorld) suppliersAt(t int, k vKey) []vSup {
	var out []vSup
	for _, r := range w.regs {
		if !r.accepted || r.f.kind != vCtor || r.home != t {
			continue
		}
		for i, res := range r.f.results {
			if res.key().eq(k) {
				out = append(out, vSup{r, i})
			}
		}
	}
	return out
}

// decoratorAt returns the accepted decorator registered in scope t for key k.
func (w *vWorld) decoratorAt(t int, k vKey) (vSup, bool) {
	for _, r := range w.regs {
		if !r.accepted || r.f.kind != vDecor || r.scope != t {
			continue
		}
		for i, res := range r.f.results {
			if res.key().eq(k) {
				return vSup{r, i}, true
			}
		}
	}
	return vSup{}, false
}

// resolveDecor finds the nearest enclosing decorator for k that is not being
// built right now and is not self.
func (w *vWorld) resolveDecor(s int, k vKey, self *vReg) (vSup, bool) {
	for _, t := range w.pathToRoot(s) {
		if d, ok := w.decoratorAt(t, k); ok && d.reg != self && !w.onStack(d.reg) {
			return d, true
		}
	}
	return vSup{}, false
}

// resolve returns the expected supplier of single key k for a consumer
// resolving from scope s.
func (w *vWorld) resolve(s int, k vKey, self *vReg) (vSup, bool) {
	if d, ok := w.resolveDecor(s, k, self); ok {
		return d, true
	}
	for _, t := range w.pathToRoot(s) {
		if ps := w.suppliersAt(t, k); len(ps) > 0 {
			return ps[0], true
		}
	}
	return vSup{}, false
}

// feeders lists all visible constructors feeding group key k from scope s.
func (w *vWorld) feeders(s int, k vKey) []vSup {
	var out []vSup
	for _, t := range w.pathToRoot(s) {
		out = append(out, w.suppliersAt(t, k)...)
	}
	return out
}

func (w *vWorld) resScope(r *vReg) int { return r.scope }

// unavailable reports whether r cannot be built because a required
// dependency is (transitively) missing.
func (w *vWorld) unavailable(r *vReg, visiting []*vReg) bool {
	for _, v := range visiting {
		if v == r {
			return false
		}
	}
	if r.succeeded() != nil {
		return false
	}
	visiting = append(visiting, r)
	for _, p := range r.f.params {
		if p.group != "" {
			if p.soft {
				continue
			}
			if _, ok := w.resolveDecor(w.resScope(r), p.key(), r); ok {
				continue
			}
			for _, fd := range w.feeders(w.resScope(r), p.key()) {
				if w.unavailable(fd.reg, visiting) {
					return true
				}
			}
			continue
		}
		sup, ok := w.resolve(w.resScope(r), p.key(), r)
		if !ok {
			if !p.optional {
				return true
			}
			continue
		}
		if p.optional {
			continue
		}
		if w.unavailable(sup.reg, visiting) {
			return true
		}
	}
	return false
}

type vClosure struct {
	may     []*vReg // upper bound of what an Invoke may execute
	must    []*vReg // lower bound of what a successful Invoke has executed
	missing bool    // a required dependency is unavailable
}

func vHas(l []*vReg, r *vReg) bool {
	for _, x := range l {
		if x == r {
			return true
		}
	}
	return false
}

// closure computes the dependency closure of params resolved from scope s.
func (w *vWorld) closure(s int, params []*vParam, self *vReg, cl *vClosure, must bool) {
	for _, p := range params {
		if p.group != "" {
			if d, ok := w.resolveDecor(s, p.key(), self); ok {
				w.addClosure(d.reg, cl, must)
				continue
			}
			if p.soft {
				continue
			}
			for _, fd := range w.feeders(s, p.key()) {
				w.addClosure(fd.reg, cl, must)
			}
			continue
		}
		sup, ok := w.resolve(s, p.key(), self)
		if !ok {
			if !p.optional && must {
				cl.missing = true
			}
			continue
		}
		m := must
		if p.optional && w.unavailable(sup.reg, nil) {
			m = false
		}
		if m && w.unavailable(sup.reg, nil) {
			cl.missing = true
		}
		w.addClosure(sup.reg, cl, m)
	}
}

func (w *vWorld) addClosure(r *vReg, cl *vClosure, must bool) {
	inMay := vHas(cl.may, r)
	inMust := vHas(cl.must, r)
	if inMay && (inMust || !must) {
		return
	}
	if !inMay {
		cl.may = append(cl.may, r)
	}
	if must && !inMust {
		cl.must = append(cl.must, r)
	}
	if r.succeeded() != nil {
		return // already built: its dependencies are not demanded again
	}
	w.closure(w.resScope(r), r.f.params, r, cl, must)
}

func (w *vWorld) invokeClosure(s int, f *vFunc) *vClosure {
	cl := &vClosure{}
	w.closure(s, f.params, nil, cl, true)
	return cl
}
