package gosym

import (
	"go/types"

	"golang.org/x/tools/go/ssa"
)

// mapv is an insertion-ordered association list.  Key equality may be
// symbolic; lookups decide it (stub S1: iteration order = insertion order).
type mapv struct {
	keyT    types.Type
	entries []*mapEntry
	live    int
}

type mapEntry struct {
	key     value
	val     value
	deleted bool
}

// find returns the entry whose key equals k on this path, deciding symbolic
// equalities as it goes.
func (p *Path) mapFind(m *mapv, k value) *mapEntry {
	if m == nil {
		return nil
	}
	if it, ok := m.keyT.Underlying().(*types.Interface); ok {
		_ = it
		if kif, ok := k.(iface); ok && kif.t != nil && !types.Comparable(kif.t) {
			panic(p.runtimePanic("hash of unhashable type " + kif.t.String()))
		}
	}
	for _, e := range m.entries {
		if e.deleted {
			continue
		}
		eq := p.equals(m.keyT, e.key, k)
		if eq.IsFalse() {
			continue
		}
		if p.decide(eq, "map-key") {
			return e
		}
	}
	return nil
}

func (p *Path) mapInsert(m *mapv, k, v value) {
	if e := p.mapFind(m, k); e != nil {
		e.val = v
		return
	}
	m.entries = append(m.entries, &mapEntry{key: k, val: v})
	m.live++
}

func (p *Path) mapDelete(m *mapv, k value) {
	if e := p.mapFind(m, k); e != nil {
		e.deleted = true
		m.live--
	}
}

func (p *Path) lookup(instr *ssa.Lookup, x, idx value) value {
	switch x := x.(type) {
	case *mapv:
		var v value
		e := p.mapFind(x, idx)
		ok := e != nil
		if ok {
			v = copyVal(e.val)
		} else {
			v = zero(instr.X.Type().Underlying().(*types.Map).Elem())
		}
		if instr.CommaOk {
			return tuple{v, ok}
		}
		return v
	case string:
		i := p.index(idx, len(x))
		return x[i]
	}
	panic(engineError{"unexpected x type in Lookup"})
}
