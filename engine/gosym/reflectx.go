package gosym

import (
	"fmt"
	"go/token"
	"go/types"
	"reflect"
	"strings"
	"unicode"
	"unicode/utf8"

	"golang.org/x/tools/go/ssa"
)

// Model of package reflect (stub S2).  A reflect.Value is the 3-field
// structure {type, payload, flags}; the payload is either the value itself or,
// for addressable Values, the *value cell holding it.

const (
	flagAddr = 1 << iota // payload is a *value cell
	flagRO               // obtained through an unexported field
)

func mkRV(t types.Type, v value, flag int) value {
	return structure{mkRType(t), v, flag}
}

func invalidRV() value { return structure{iface{}, iface{}, int(0)} }

type rv struct {
	t    types.Type
	v    value
	flag int
}

func (p *Path) asRV(x value) rv {
	s := x.(structure)
	ti, _ := s[0].(iface)
	if ti.t == nil {
		return rv{}
	}
	return rv{t: ti.v.(rtype).t, v: s[1], flag: asInt(s[2])}
}

func (r rv) valid() bool { return r.t != nil }

// get returns the held value (a copy for aggregates).
func (r rv) get() value {
	if r.flag&flagAddr != 0 {
		return load(r.v.(*value))
	}
	return r.v
}

func (p *Path) mustValid(r rv, meth string) {
	if !r.valid() {
		panic(p.reflectPanic("reflect: call of reflect.Value." + meth + " on zero Value"))
	}
}

// reflectPanic models reflect's panics (*reflect.ValueError or string).
func (p *Path) reflectPanic(msg string) targetPanic {
	return targetPanic{iface{types.Typ[types.String], msg}}
}

func reflectKind(t types.Type) reflect.Kind {
	switch t := t.Underlying().(type) {
	case *types.Basic:
		switch t.Kind() {
		case types.Bool, types.UntypedBool:
			return reflect.Bool
		case types.Int, types.UntypedInt:
			return reflect.Int
		case types.Int8:
			return reflect.Int8
		case types.Int16:
			return reflect.Int16
		case types.Int32, types.UntypedRune:
			return reflect.Int32
		case types.Int64:
			return reflect.Int64
		case types.Uint:
			return reflect.Uint
		case types.Uint8:
			return reflect.Uint8
		case types.Uint16:
			return reflect.Uint16
		case types.Uint32:
			return reflect.Uint32
		case types.Uint64:
			return reflect.Uint64
		case types.Uintptr:
			return reflect.Uintptr
		case types.Float32:
			return reflect.Float32
		case types.Float64, types.UntypedFloat:
			return reflect.Float64
		case types.Complex64:
			return reflect.Complex64
		case types.Complex128, types.UntypedComplex:
			return reflect.Complex128
		case types.String, types.UntypedString:
			return reflect.String
		case types.UnsafePointer:
			return reflect.UnsafePointer
		}
	case *types.Array:
		return reflect.Array
	case *types.Chan:
		return reflect.Chan
	case *types.Signature:
		return reflect.Func
	case *types.Interface:
		return reflect.Interface
	case *types.Map:
		return reflect.Map
	case *types.Pointer:
		return reflect.Ptr
	case *types.Slice:
		return reflect.Slice
	case *types.Struct:
		return reflect.Struct
	}
	panic(engineError{fmt.Sprint("reflectKind: unexpected type: ", t)})
}

func kindVal(k reflect.Kind) value { return uint(k) }

// assignable reports (possibly by deciding a symbolic type equality) whether
// a value of type v can be assigned to type t.
func (p *Path) assignable(v, t types.Type) bool {
	eq := p.typeEq(v, t)
	if eq.IsTrue() {
		return true
	}
	if it, ok := t.Underlying().(*types.Interface); ok {
		return p.implements(v, it)
	}
	if !eq.IsFalse() {
		return p.decide(eq, "assignable")
	}
	if !p.hasSym(v) && !p.hasSym(t) {
		return types.AssignableTo(v, t)
	}
	return false
}

// convertTo converts a raw value of type from into representation for type to
// (wrapping into an interface value where needed).
func (p *Path) convertTo(x value, from, to types.Type) value {
	if _, ok := to.Underlying().(*types.Interface); ok {
		if _, isI := from.Underlying().(*types.Interface); isI {
			return x
		}
		return iface{t: from, v: x}
	}
	return x
}

func (p *Path) structField(st *types.Struct, i int) value {
	f := st.Field(i)
	pkgPath := ""
	if !f.Exported() && f.Pkg() != nil {
		pkgPath = f.Pkg().Path()
	}
	sfT := p.P.Prog.ImportedPackage("reflect").Pkg.Scope().Lookup("StructField").Type()
	res := zero(sfT).(structure)
	// Name PkgPath Type Tag Offset Index Anonymous
	res[0] = f.Name()
	res[1] = pkgPath
	res[2] = mkRType(f.Type())
	res[3] = st.Tag(i)
	res[4] = uintptr(8 * i)
	res[5] = []value{int(i)}
	res[6] = f.Embedded()
	return res
}

func (p *Path) rtypeOf(x value) types.Type {
	i := x.(iface)
	if i.t == nil {
		return nil
	}
	return i.v.(rtype).t
}

func isExportedName(s string) bool {
	r, _ := utf8.DecodeRuneInString(s)
	return unicode.IsUpper(r)
}

func (p *Path) callRTypeMethod(name string, args []value) value {
	t := args[0].(rtype).t
	u := t.Underlying()
	switch name {
	case "String":
		return p.typeString(t)
	case "Kind":
		return kindVal(reflectKind(t))
	case "Name":
		switch t := types.Unalias(t).(type) {
		case *types.Named:
			return t.Obj().Name()
		case *types.Basic:
			return t.Name()
		}
		return ""
	case "PkgPath":
		if n, ok := types.Unalias(t).(*types.Named); ok && n.Obj().Pkg() != nil {
			return n.Obj().Pkg().Path()
		}
		return ""
	case "Elem":
		switch u := u.(type) {
		case *types.Pointer:
			return mkRType(u.Elem())
		case *types.Slice:
			return mkRType(u.Elem())
		case *types.Array:
			return mkRType(u.Elem())
		case *types.Map:
			return mkRType(u.Elem())
		case *types.Chan:
			return mkRType(u.Elem())
		}
		panic(p.reflectPanic("reflect: Elem of invalid type " + p.typeString(t)))
	case "Key":
		if m, ok := u.(*types.Map); ok {
			return mkRType(m.Key())
		}
		panic(p.reflectPanic("reflect: Key of non-map type " + p.typeString(t)))
	case "Len":
		if a, ok := u.(*types.Array); ok {
			return int(a.Len())
		}
		panic(p.reflectPanic("reflect: Len of non-array type " + p.typeString(t)))
	case "NumField":
		if s, ok := u.(*types.Struct); ok {
			return s.NumFields()
		}
		panic(p.reflectPanic("reflect: NumField of non-struct type " + p.typeString(t)))
	case "Field":
		s, ok := u.(*types.Struct)
		if !ok {
			panic(p.reflectPanic("reflect: Field of non-struct type " + p.typeString(t)))
		}
		i := p.concInt(args[1], "Type.Field")
		if i < 0 || i >= s.NumFields() {
			panic(p.reflectPanic("reflect: Field index out of bounds"))
		}
		return p.structField(s, i)
	case "NumIn", "NumOut", "In", "Out", "IsVariadic":
		sig, ok := u.(*types.Signature)
		if !ok {
			panic(p.reflectPanic("reflect: " + name + " of non-func type " + p.typeString(t)))
		}
		switch name {
		case "NumIn":
			return sig.Params().Len()
		case "NumOut":
			return sig.Results().Len()
		case "IsVariadic":
			return sig.Variadic()
		case "In":
			i := p.concInt(args[1], "Type.In")
			if i < 0 || i >= sig.Params().Len() {
				panic(p.runtimePanic(fmt.Sprintf("index out of range [%d] with length %d", i, sig.Params().Len())))
			}
			return mkRType(sig.Params().At(i).Type())
		default:
			i := p.concInt(args[1], "Type.Out")
			if i < 0 || i >= sig.Results().Len() {
				panic(p.runtimePanic(fmt.Sprintf("index out of range [%d] with length %d", i, sig.Results().Len())))
			}
			return mkRType(sig.Results().At(i).Type())
		}
	case "NumMethod":
		if it, ok := u.(*types.Interface); ok {
			return it.NumMethods()
		}
		ms := p.P.Prog.MethodSets.MethodSet(t)
		n := 0
		for i := 0; i < ms.Len(); i++ {
			if ms.At(i).Obj().Exported() {
				n++
			}
		}
		return n
	case "Implements":
		ut := p.rtypeOf(args[1])
		if ut == nil {
			panic(p.reflectPanic("reflect: nil type passed to Type.Implements"))
		}
		it, ok := ut.Underlying().(*types.Interface)
		if !ok {
			panic(p.reflectPanic("reflect: non-interface type passed to Type.Implements"))
		}
		return p.implements(t, it)
	case "AssignableTo":
		ut := p.rtypeOf(args[1])
		if ut == nil {
			panic(p.reflectPanic("reflect: nil type passed to Type.AssignableTo"))
		}
		return p.assignable(t, ut)
	case "ConvertibleTo":
		ut := p.rtypeOf(args[1])
		if p.assignable(t, ut) {
			return true
		}
		return types.ConvertibleTo(t, ut)
	case "Comparable":
		return types.Comparable(t)
	case "Size":
		return uintptr(8)
	case "Bits":
		if k, ok := basicKindOf(t); ok {
			return int(kindWidth(k))
		}
		panic(p.reflectPanic("reflect: Bits of non-arithmetic Type " + p.typeString(t)))
	}
	panic(engineError{"reflect.Type method not modelled: " + name})
}

func init() {
	for _, n := range []string{"String", "Kind", "Name", "PkgPath", "Elem", "Key", "Len", "NumField", "Field", "NumIn", "NumOut", "In", "Out",
		"IsVariadic", "NumMethod", "Implements", "AssignableTo", "ConvertibleTo", "Comparable", "Size", "Bits",
		// part of the interface but not modelled (calls are engine errors):
		"Align", "FieldAlign", "Method", "MethodByName", "ChanDir", "FieldByIndex", "FieldByName", "FieldByNameFunc",
		"OverflowComplex", "OverflowFloat", "OverflowInt", "OverflowUint", "CanSeq", "CanSeq2", "common", "uncommon"} {
		rtypeMethodNames[n] = true
	}
}

func (p *Path) callHostMethod(caller *frame, m *hostMethod, args []value) value {
	switch m.recv {
	case rtypeType:
		return p.callRTypeMethod(m.name, args)
	case fmtStateType:
		return p.callFmtStateMethod(m.name, args)
	case hostErrType:
		return args[0].(*hostObj).data.(string)
	}
	panic(engineError{"host method on " + m.recv.String()})
}

// hostObj is an opaque engine object referenced from the target.
type hostObj struct {
	kind string
	data interface{}
}

// fakePtr gives a stable fake address for %p and Value.Pointer.
func (p *Path) fakePtr(c *value) uint64 {
	if c == nil {
		return 0
	}
	if a, ok := p.fakeAddr[c]; ok {
		return a
	}
	a := 0xc000000000 + uint64(len(p.fakeAddr)+1)*16
	p.fakeAddr[c] = a
	return a
}

func (p *Path) funcPC(fn value) uint64 {
	var f *ssa.Function
	switch fn := fn.(type) {
	case *ssa.Function:
		f = fn
	case *closure:
		if fn != nil {
			f = fn.Fn
		}
	case *makeFunc:
		if fn == nil {
			return 0
		}
		return pcMakeFuncStub
	}
	if f == nil {
		return 0
	}
	return p.P.pcOf(f)
}

const pcBase = 0x400000
const pcMakeFuncStub = pcBase - 16

func (P *Program) pcOf(f *ssa.Function) uint64 {
	P.mu.Lock()
	defer P.mu.Unlock()
	if id, ok := P.funcID[f]; ok {
		return pcBase + uint64(id)*16
	}
	id := len(P.funcs)
	P.funcs = append(P.funcs, f)
	P.funcID[f] = id
	return pcBase + uint64(id)*16
}

func (P *Program) funcForPC(pc uint64) *ssa.Function {
	P.mu.Lock()
	defer P.mu.Unlock()
	if pc < pcBase || (pc-pcBase)%16 != 0 {
		return nil
	}
	id := int((pc - pcBase) / 16)
	if id >= len(P.funcs) {
		return nil
	}
	return P.funcs[id]
}

// rvElemCell returns the cell an addressable Value refers to.
func (r rv) cell() *value { return r.v.(*value) }

func (p *Path) rvField(r rv, i int) value {
	st, ok := r.t.Underlying().(*types.Struct)
	if !ok {
		panic(p.reflectPanic("reflect: call of reflect.Value.Field on " + reflectKind(r.t).String() + " Value"))
	}
	if i < 0 || i >= st.NumFields() {
		panic(p.reflectPanic("reflect: Field index out of range"))
	}
	f := st.Field(i)
	fl := r.flag & flagRO
	if !f.Exported() {
		fl |= flagRO
	}
	if r.flag&flagAddr != 0 {
		s := (*r.cell()).(structure)
		return mkRV(f.Type(), &s[i], fl|flagAddr)
	}
	return mkRV(f.Type(), copyVal(r.v.(structure)[i]), fl)
}

func (p *Path) checkSettable(r rv, meth string) {
	p.mustValid(r, meth)
	if r.flag&flagRO != 0 {
		panic(p.reflectPanic("reflect: reflect.Value." + meth + " using value obtained using unexported field"))
	}
	if r.flag&flagAddr == 0 {
		panic(p.reflectPanic("reflect: reflect.Value." + meth + " using unaddressable value"))
	}
}

func (p *Path) rvCall(caller *frame, r rv, in []value) value {
	p.mustValid(r, "Call")
	sig, ok := r.t.Underlying().(*types.Signature)
	if !ok {
		panic(p.reflectPanic("reflect: call of reflect.Value.Call on " + reflectKind(r.t).String() + " Value"))
	}
	fn := r.get()
	if isNilValue(fn) {
		panic(p.reflectPanic("reflect: call of nil function"))
	}
	n := sig.Params().Len()
	if sig.Variadic() {
		if len(in) < n-1 {
			panic(p.reflectPanic("reflect: Call with too few input arguments"))
		}
	} else {
		if len(in) < n {
			panic(p.reflectPanic("reflect: Call with too few input arguments"))
		}
		if len(in) > n {
			panic(p.reflectPanic("reflect: Call with too many input arguments"))
		}
	}
	args := make([]value, 0, n)
	fixed := n
	if sig.Variadic() {
		fixed = n - 1
	}
	for i := 0; i < fixed; i++ {
		a := p.asRV(in[i])
		if !a.valid() {
			panic(p.reflectPanic("reflect: Call using zero Value argument"))
		}
		pt := sig.Params().At(i).Type()
		if !p.assignable(a.t, pt) {
			panic(p.reflectPanic("reflect: Call using " + p.typeString(a.t) + " as type " + p.typeString(pt)))
		}
		args = append(args, p.convertTo(a.get(), a.t, pt))
	}
	if sig.Variadic() {
		st := sig.Params().At(n - 1).Type().Underlying().(*types.Slice)
		var rest []value
		for _, x := range in[fixed:] {
			a := p.asRV(x)
			if !a.valid() {
				panic(p.reflectPanic("reflect: Call using zero Value argument"))
			}
			if !p.assignable(a.t, st.Elem()) {
				panic(p.reflectPanic("reflect: cannot use " + p.typeString(a.t) + " as type " + p.typeString(st.Elem()) + " in Call"))
			}
			rest = append(rest, p.convertTo(a.get(), a.t, st.Elem()))
		}
		args = append(args, rest)
	}
	var res value
	if mf, ok := fn.(*makeFunc); ok {
		return p.invokeMakeFunc(caller, mf, args)
	}
	res = p.call(caller, token.NoPos, fn, args)
	return p.wrapResults(sig, res)
}

func (p *Path) wrapResults(sig *types.Signature, res value) value {
	nres := sig.Results().Len()
	out := make([]value, nres)
	switch nres {
	case 0:
	case 1:
		out[0] = mkRV(sig.Results().At(0).Type(), res, 0)
	default:
		for i, x := range res.(tuple) {
			out[i] = mkRV(sig.Results().At(i).Type(), x, 0)
		}
	}
	return out
}

// invokeMakeFunc calls the user closure behind a reflect.MakeFunc value with
// raw arguments and returns the []reflect.Value results, checked as the real
// reflect does.
func (p *Path) invokeMakeFunc(caller *frame, mf *makeFunc, raw []value) value {
	sig := mf.sig
	in := make([]value, len(raw))
	for i, a := range raw {
		in[i] = mkRV(sig.Params().At(i).Type(), a, 0)
	}
	res := p.call(caller, token.NoPos, mf.fn, []value{in})
	out, _ := res.([]value)
	if len(out) != sig.Results().Len() {
		panic(p.reflectPanic("reflect: wrong return count from function created by MakeFunc"))
	}
	fixed := make([]value, len(out))
	for i, o := range out {
		r := p.asRV(o)
		rt := sig.Results().At(i).Type()
		if !r.valid() {
			panic(p.reflectPanic("reflect: function created by MakeFunc using closure returned zero Value"))
		}
		if r.flag&flagRO != 0 {
			panic(p.reflectPanic("reflect: function created by MakeFunc using closure returned value obtained from unexported field"))
		}
		if !p.assignable(r.t, rt) {
			panic(p.reflectPanic("reflect: function created by MakeFunc using closure returned wrong type: have " + p.typeString(r.t) + " for " + p.typeString(rt)))
		}
		fixed[i] = mkRV(rt, p.convertTo(r.get(), r.t, rt), 0)
	}
	return fixed
}

// callMakeFunc is a direct (non-reflective) call of a MakeFunc value.
func (p *Path) callMakeFunc(caller *frame, mf *makeFunc, args []value) value {
	out := p.invokeMakeFunc(caller, mf, args).([]value)
	switch len(out) {
	case 0:
		return nil
	case 1:
		return p.asRV(out[0]).get()
	}
	t := make(tuple, len(out))
	for i, o := range out {
		t[i] = p.asRV(o).get()
	}
	return t
}

func (p *Path) rvLen(r rv, meth string) int {
	v := r.get()
	switch v := v.(type) {
	case []value:
		return len(v)
	case array:
		return len(v)
	case string:
		return len(v)
	case *mapv:
		if v == nil {
			return 0
		}
		return v.live
	case *value:
		if a, ok := r.t.Underlying().(*types.Pointer); ok {
			if _, ok := a.Elem().Underlying().(*types.Array); ok && v != nil {
				return len((*v).(array))
			}
		}
	}
	panic(p.reflectPanic("reflect: call of reflect.Value." + meth + " on " + reflectKind(r.t).String() + " Value"))
}

func (p *Path) rvIsNil(r rv) bool {
	switch reflectKind(r.t) {
	case reflect.Chan, reflect.Func, reflect.Map, reflect.Ptr, reflect.UnsafePointer, reflect.Interface, reflect.Slice:
		return isNilValue(r.get())
	}
	panic(p.reflectPanic("reflect: call of reflect.Value.IsNil on " + reflectKind(r.t).String() + " Value"))
}

func isZeroVal(v value) bool {
	switch v := v.(type) {
	case structure:
		for _, e := range v {
			if !isZeroVal(e) {
				return false
			}
		}
		return true
	case array:
		for _, e := range v {
			if !isZeroVal(e) {
				return false
			}
		}
		return true
	case bool:
		return !v
	case string:
		return v == ""
	case float32:
		return v == 0
	case float64:
		return v == 0
	case *Sym:
		return false
	}
	if _, b, ok := intBits(v); ok {
		return b == 0
	}
	return isNilValue(v)
}

type extFn func(p *Path, fr *frame, args []value) value

// stdSizes gives the gc/amd64 sizes the native replay runs with.
var stdSizes = types.SizesFor("gc", "amd64")

var externals = map[string]extFn{}

func init() {
	reg := func(m map[string]extFn) {
		for k, v := range m {
			externals[k] = v
		}
	}
	reg(map[string]extFn{
		"reflect.TypeOf": func(p *Path, fr *frame, args []value) value {
			return mkRType(args[0].(iface).t)
		},
		"reflect.ValueOf": func(p *Path, fr *frame, args []value) value {
			i := args[0].(iface)
			if i.t == nil {
				return invalidRV()
			}
			return mkRV(i.t, i.v, 0)
		},
		"reflect.Zero": func(p *Path, fr *frame, args []value) value {
			t := p.rtypeOf(args[0])
			if t == nil {
				panic(p.reflectPanic("reflect: Zero(nil)"))
			}
			return mkRV(t, zero(t), 0)
		},
		"reflect.New": func(p *Path, fr *frame, args []value) value {
			t := p.rtypeOf(args[0])
			if t == nil {
				panic(p.reflectPanic("reflect: New(nil)"))
			}
			cell := zero(t)
			return mkRV(types.NewPointer(t), &cell, 0)
		},
		"reflect.PointerTo": extPointerTo,
		"reflect.PtrTo":     extPointerTo,
		"reflect.SliceOf": func(p *Path, fr *frame, args []value) value {
			return mkRType(types.NewSlice(p.rtypeOf(args[0])))
		},
		"reflect.ArrayOf": func(p *Path, fr *frame, args []value) value {
			n := p.concInt(args[0], "ArrayOf")
			if n < 0 {
				panic(p.reflectPanic("reflect: negative length passed to ArrayOf"))
			}
			et := p.rtypeOf(args[1])
			if esz := uint64(stdSizes.Sizeof(et)); esz > 0 && uint64(n) > ^uint64(0)/esz {
				panic(p.reflectPanic("reflect.ArrayOf: array size would exceed virtual address space"))
			}
			return mkRType(types.NewArray(et, int64(n)))
		},
		"reflect.MapOf": func(p *Path, fr *frame, args []value) value {
			return mkRType(types.NewMap(p.rtypeOf(args[0]), p.rtypeOf(args[1])))
		},
		"reflect.FuncOf": func(p *Path, fr *frame, args []value) value {
			in, _ := args[0].([]value)
			out, _ := args[1].([]value)
			variadic := p.truth(args[2], "FuncOf-variadic")
			var ps, rs []*types.Var
			for _, x := range in {
				ps = append(ps, types.NewParam(token.NoPos, nil, "", p.rtypeOf(x)))
			}
			for _, x := range out {
				rs = append(rs, types.NewParam(token.NoPos, nil, "", p.rtypeOf(x)))
			}
			if variadic {
				if len(ps) == 0 {
					panic(p.reflectPanic("reflect.FuncOf: last arg of variadic func must be slice"))
				}
				if _, ok := ps[len(ps)-1].Type().Underlying().(*types.Slice); !ok {
					panic(p.reflectPanic("reflect.FuncOf: last arg of variadic func must be slice"))
				}
			}
			return mkRType(types.NewSignatureType(nil, nil, nil, types.NewTuple(ps...), types.NewTuple(rs...), variadic))
		},
		"reflect.StructOf": func(p *Path, fr *frame, args []value) value {
			fs, _ := args[0].([]value)
			var vars []*types.Var
			var tags []string
			seen := map[string]bool{}
			for i, f := range fs {
				sf := f.(structure)
				name := sf[0].(string)
				pkgPath := sf[1].(string)
				ft := p.rtypeOf(sf[2])
				tag := sf[3].(string)
				anon := p.truth(sf[6], "StructOf-anon")
				if name == "" {
					panic(p.reflectPanic(fmt.Sprintf("reflect.StructOf: field %d has no name", i)))
				}
				if !validFieldName(name) {
					panic(p.reflectPanic(fmt.Sprintf("reflect.StructOf: field %d has invalid name", i)))
				}
				if ft == nil {
					panic(p.reflectPanic(fmt.Sprintf("reflect.StructOf: field %d has no type", i)))
				}
				var pkg *types.Package
				if !isExportedName(name) {
					if pkgPath == "" {
						panic(p.reflectPanic("reflect.StructOf: field \"" + name + "\" is unexported but missing PkgPath"))
					}
					if anon {
						panic(p.reflectPanic("reflect.StructOf: field \"" + name + "\" is anonymous but has PkgPath set"))
					}
					pkg = p.pkgByPath(pkgPath)
				} else if pkgPath != "" {
					panic(p.reflectPanic("reflect.StructOf: field \"" + name + "\" is exported but has PkgPath " + pkgPath))
				}
				if seen[name] && name != "_" {
					panic(p.reflectPanic("reflect.StructOf: duplicate field " + name))
				}
				seen[name] = true
				vars = append(vars, types.NewField(token.NoPos, pkg, name, ft, anon))
				tags = append(tags, tag)
			}
			return mkRType(types.NewStruct(vars, tags))
		},
		"reflect.MakeFunc": func(p *Path, fr *frame, args []value) value {
			t := p.rtypeOf(args[0])
			sig, ok := t.Underlying().(*types.Signature)
			if !ok {
				panic(p.reflectPanic("reflect: call of MakeFunc with non-Func type"))
			}
			return mkRV(t, &makeFunc{sig: sig, typ: t, fn: args[1]}, 0)
		},
		"reflect.MakeSlice": func(p *Path, fr *frame, args []value) value {
			t := p.rtypeOf(args[0])
			st, ok := t.Underlying().(*types.Slice)
			if !ok {
				panic(p.reflectPanic("reflect.MakeSlice of non-slice type"))
			}
			n := p.concInt(args[1], "MakeSlice-len")
			c := p.concInt(args[2], "MakeSlice-cap")
			if n < 0 {
				panic(p.reflectPanic("reflect.MakeSlice: negative len"))
			}
			if c < 0 {
				panic(p.reflectPanic("reflect.MakeSlice: negative cap"))
			}
			if n > c {
				panic(p.reflectPanic("reflect.MakeSlice: len > cap"))
			}
			s := make([]value, c)
			for i := range s {
				s[i] = zero(st.Elem())
			}
			return mkRV(t, s[:n], 0)
		},
		"reflect.Append": func(p *Path, fr *frame, args []value) value {
			s := p.asRV(args[0])
			p.mustValid(s, "Append")
			st, ok := s.t.Underlying().(*types.Slice)
			if !ok {
				panic(p.reflectPanic("reflect: call of reflect.Append on " + reflectKind(s.t).String() + " Value"))
			}
			cur, _ := s.get().([]value)
			xs, _ := args[1].([]value)
			if len(xs) == 0 {
				return mkRV(s.t, cur, 0)
			}
			// always reallocate: results never alias the caller's backing array
			res := make([]value, len(cur), len(cur)+len(xs))
			copy(res, cur)
			for _, x := range xs {
				a := p.asRV(x)
				p.mustValid(a, "Append")
				if a.flag&flagRO != 0 {
					panic(p.reflectPanic("reflect: reflect.Value.Set using value obtained using unexported field"))
				}
				if !p.assignable(a.t, st.Elem()) {
					panic(p.reflectPanic("reflect.Set: value of type " + p.typeString(a.t) + " is not assignable to type " + p.typeString(st.Elem())))
				}
				res = append(res, copyVal(p.convertTo(a.get(), a.t, st.Elem())))
			}
			return mkRV(s.t, res, 0)
		},
		"reflect.Indirect": func(p *Path, fr *frame, args []value) value {
			r := p.asRV(args[0])
			if r.valid() && reflectKind(r.t) == reflect.Ptr {
				return rvElem(p, r)
			}
			return args[0]
		},
		"(reflect.Value).IsValid": func(p *Path, fr *frame, args []value) value { return p.asRV(args[0]).valid() },
		"(reflect.Value).Kind": func(p *Path, fr *frame, args []value) value {
			r := p.asRV(args[0])
			if !r.valid() {
				return kindVal(reflect.Invalid)
			}
			return kindVal(reflectKind(r.t))
		},
		"(reflect.Value).Type": func(p *Path, fr *frame, args []value) value {
			r := p.asRV(args[0])
			p.mustValid(r, "Type")
			return mkRType(r.t)
		},
		"(reflect.Value).Interface": func(p *Path, fr *frame, args []value) value {
			r := p.asRV(args[0])
			p.mustValid(r, "Interface")
			if r.flag&flagRO != 0 {
				panic(p.reflectPanic("reflect.Value.Interface: cannot return value obtained from unexported field or method"))
			}
			if _, ok := r.t.Underlying().(*types.Interface); ok {
				return r.get()
			}
			return iface{t: r.t, v: r.get()}
		},
		"(reflect.Value).CanInterface": func(p *Path, fr *frame, args []value) value {
			r := p.asRV(args[0])
			p.mustValid(r, "CanInterface")
			return r.flag&flagRO == 0
		},
		"(reflect.Value).CanAddr": func(p *Path, fr *frame, args []value) value { return p.asRV(args[0]).flag&flagAddr != 0 },
		"(reflect.Value).CanSet": func(p *Path, fr *frame, args []value) value {
			r := p.asRV(args[0])
			return r.flag&flagAddr != 0 && r.flag&flagRO == 0
		},
		"(reflect.Value).Addr": func(p *Path, fr *frame, args []value) value {
			r := p.asRV(args[0])
			if r.flag&flagAddr == 0 {
				panic(p.reflectPanic("reflect.Value.Addr of unaddressable value"))
			}
			return mkRV(types.NewPointer(r.t), r.cell(), r.flag&flagRO)
		},
		"(reflect.Value).Elem": func(p *Path, fr *frame, args []value) value {
			r := p.asRV(args[0])
			p.mustValid(r, "Elem")
			return rvElem(p, r)
		},
		"(reflect.Value).NumField": func(p *Path, fr *frame, args []value) value {
			r := p.asRV(args[0])
			p.mustValid(r, "NumField")
			st, ok := r.t.Underlying().(*types.Struct)
			if !ok {
				panic(p.reflectPanic("reflect: call of reflect.Value.NumField on " + reflectKind(r.t).String() + " Value"))
			}
			return st.NumFields()
		},
		"(reflect.Value).Field": func(p *Path, fr *frame, args []value) value {
			r := p.asRV(args[0])
			p.mustValid(r, "Field")
			return p.rvField(r, p.concInt(args[1], "Value.Field"))
		},
		"(reflect.Value).Len": func(p *Path, fr *frame, args []value) value {
			r := p.asRV(args[0])
			p.mustValid(r, "Len")
			return p.rvLen(r, "Len")
		},
		"(reflect.Value).Cap": func(p *Path, fr *frame, args []value) value {
			r := p.asRV(args[0])
			p.mustValid(r, "Cap")
			if s, ok := r.get().([]value); ok {
				return cap(s)
			}
			return p.rvLen(r, "Cap")
		},
		"(reflect.Value).Index": func(p *Path, fr *frame, args []value) value {
			r := p.asRV(args[0])
			p.mustValid(r, "Index")
			i := p.concInt(args[1], "Value.Index")
			switch u := r.t.Underlying().(type) {
			case *types.Slice:
				s, _ := r.get().([]value)
				if i < 0 || i >= len(s) {
					panic(p.reflectPanic("reflect: slice index out of range"))
				}
				return mkRV(u.Elem(), &s[i], flagAddr|r.flag&flagRO)
			case *types.Array:
				if r.flag&flagAddr != 0 {
					a := (*r.cell()).(array)
					if i < 0 || i >= len(a) {
						panic(p.reflectPanic("reflect: array index out of range"))
					}
					return mkRV(u.Elem(), &a[i], flagAddr|r.flag&flagRO)
				}
				a := r.v.(array)
				if i < 0 || i >= len(a) {
					panic(p.reflectPanic("reflect: array index out of range"))
				}
				return mkRV(u.Elem(), copyVal(a[i]), r.flag&flagRO)
			case *types.Basic:
				if s, ok := r.get().(string); ok {
					if i < 0 || i >= len(s) {
						panic(p.reflectPanic("reflect: string index out of range"))
					}
					return mkRV(types.Typ[types.Uint8], s[i], r.flag&flagRO)
				}
			}
			panic(p.reflectPanic("reflect: call of reflect.Value.Index on " + reflectKind(r.t).String() + " Value"))
		},
		"(reflect.Value).IsNil": func(p *Path, fr *frame, args []value) value {
			r := p.asRV(args[0])
			p.mustValid(r, "IsNil")
			return p.rvIsNil(r)
		},
		"(reflect.Value).IsZero": func(p *Path, fr *frame, args []value) value {
			r := p.asRV(args[0])
			p.mustValid(r, "IsZero")
			return isZeroVal(r.get())
		},
		"(reflect.Value).Pointer": func(p *Path, fr *frame, args []value) value {
			r := p.asRV(args[0])
			p.mustValid(r, "Pointer")
			switch reflectKind(r.t) {
			case reflect.Func:
				return uintptr(p.funcPC(r.get()))
			case reflect.Ptr:
				c, _ := r.get().(*value)
				return uintptr(p.fakePtr(c))
			case reflect.Slice:
				s, _ := r.get().([]value)
				if cap(s) == 0 {
					return uintptr(0)
				}
				return uintptr(p.fakePtr(&s[:1][0]))
			case reflect.Map, reflect.Chan, reflect.UnsafePointer:
				return uintptr(0xc0ffee00)
			}
			panic(p.reflectPanic("reflect: call of reflect.Value.Pointer on " + reflectKind(r.t).String() + " Value"))
		},
		"(reflect.Value).Int": func(p *Path, fr *frame, args []value) value {
			r := p.asRV(args[0])
			p.mustValid(r, "Int")
			v := r.get()
			if s, ok := v.(*Sym); ok && kindSigned(s.k) {
				return p.symOrConst(p.ts.Resize(s.t, 64, true), types.Int64)
			}
			if k, b, ok := intBits(v); ok && kindSigned(k) {
				return sext(b, kindWidth(k))
			}
			panic(p.reflectPanic("reflect: call of reflect.Value.Int on " + reflectKind(r.t).String() + " Value"))
		},
		"(reflect.Value).Uint": func(p *Path, fr *frame, args []value) value {
			r := p.asRV(args[0])
			p.mustValid(r, "Uint")
			v := r.get()
			if s, ok := v.(*Sym); ok && !kindSigned(s.k) && s.k != types.Bool {
				return p.symOrConst(p.ts.Resize(s.t, 64, false), types.Uint64)
			}
			if k, b, ok := intBits(v); ok && !kindSigned(k) {
				return b & mask(kindWidth(k))
			}
			panic(p.reflectPanic("reflect: call of reflect.Value.Uint on " + reflectKind(r.t).String() + " Value"))
		},
		"(reflect.Value).Bool": func(p *Path, fr *frame, args []value) value {
			r := p.asRV(args[0])
			p.mustValid(r, "Bool")
			if reflectKind(r.t) != reflect.Bool {
				panic(p.reflectPanic("reflect: call of reflect.Value.Bool on " + reflectKind(r.t).String() + " Value"))
			}
			return r.get()
		},
		"(reflect.Value).String": func(p *Path, fr *frame, args []value) value {
			r := p.asRV(args[0])
			if !r.valid() {
				return "<invalid Value>"
			}
			if s, ok := r.get().(string); ok {
				return s
			}
			return "<" + p.typeString(r.t) + " Value>"
		},
		"(reflect.Value).Set": func(p *Path, fr *frame, args []value) value {
			r := p.asRV(args[0])
			p.checkSettable(r, "Set")
			x := p.asRV(args[1])
			p.mustValid(x, "Set")
			if x.flag&flagRO != 0 {
				panic(p.reflectPanic("reflect: reflect.Value.Set using value obtained using unexported field"))
			}
			if !p.assignable(x.t, r.t) {
				panic(p.reflectPanic("reflect.Set: value of type " + p.typeString(x.t) + " is not assignable to type " + p.typeString(r.t)))
			}
			store(r.cell(), p.convertTo(x.get(), x.t, r.t))
			return nil
		},
		"(reflect.Value).SetInt": func(p *Path, fr *frame, args []value) value {
			r := p.asRV(args[0])
			p.checkSettable(r, "SetInt")
			k, ok := basicKindOf(r.t)
			if !ok || !kindSigned(k) {
				panic(p.reflectPanic("reflect: call of reflect.Value.SetInt on " + reflectKind(r.t).String() + " Value"))
			}
			if s, ok := args[1].(*Sym); ok {
				*r.cell() = p.symOrConst(p.ts.Resize(s.t, kindWidth(k), true), k)
			} else {
				*r.cell() = mkInt(k, uint64(asInt64(args[1])))
			}
			return nil
		},
		"(reflect.Value).SetUint": func(p *Path, fr *frame, args []value) value {
			r := p.asRV(args[0])
			p.checkSettable(r, "SetUint")
			k, ok := basicKindOf(r.t)
			if !ok || kindSigned(k) {
				panic(p.reflectPanic("reflect: call of reflect.Value.SetUint on " + reflectKind(r.t).String() + " Value"))
			}
			if s, ok := args[1].(*Sym); ok {
				*r.cell() = p.symOrConst(p.ts.Resize(s.t, kindWidth(k), false), k)
			} else {
				*r.cell() = mkInt(k, uint64(asInt64(args[1])))
			}
			return nil
		},
		"(reflect.Value).SetBool": func(p *Path, fr *frame, args []value) value {
			r := p.asRV(args[0])
			p.checkSettable(r, "SetBool")
			*r.cell() = args[1]
			return nil
		},
		"(reflect.Value).SetString": func(p *Path, fr *frame, args []value) value {
			r := p.asRV(args[0])
			p.checkSettable(r, "SetString")
			*r.cell() = args[1]
			return nil
		},
		"(reflect.Value).Call": func(p *Path, fr *frame, args []value) value {
			r := p.asRV(args[0])
			in, _ := args[1].([]value)
			return p.rvCall(fr, r, in)
		},
		"(reflect.Value).Slice": func(p *Path, fr *frame, args []value) value {
			r := p.asRV(args[0])
			p.mustValid(r, "Slice")
			s, ok := r.get().([]value)
			if !ok {
				panic(p.reflectPanic("reflect.Value.Slice: unsupported kind"))
			}
			i, j := p.concInt(args[1], "Slice-i"), p.concInt(args[2], "Slice-j")
			if i < 0 || j < i || j > cap(s) {
				panic(p.reflectPanic("reflect.Value.Slice: slice index out of bounds"))
			}
			return mkRV(r.t, s[i:j], 0)
		},
	})
}

func extPointerTo(p *Path, fr *frame, args []value) value {
	return mkRType(types.NewPointer(p.rtypeOf(args[0])))
}

func rvElem(p *Path, r rv) value {
	switch u := r.t.Underlying().(type) {
	case *types.Pointer:
		c, _ := r.get().(*value)
		if c == nil {
			return invalidRV()
		}
		return mkRV(u.Elem(), c, flagAddr|r.flag&flagRO)
	case *types.Interface:
		i := r.get().(iface)
		if i.t == nil {
			return invalidRV()
		}
		return mkRV(i.t, i.v, r.flag&flagRO)
	}
	panic(p.reflectPanic("reflect: call of reflect.Value.Elem on " + reflectKind(r.t).String() + " Value"))
}

func validFieldName(s string) bool {
	for i, c := range s {
		if i == 0 && !(unicode.IsLetter(c) || c == '_') {
			return false
		}
		if !(unicode.IsLetter(c) || c == '_' || unicode.IsDigit(c)) {
			return false
		}
	}
	return s != ""
}

func (p *Path) pkgByPath(path string) *types.Package {
	for _, pkg := range p.P.Prog.AllPackages() {
		if pkg.Pkg.Path() == path {
			return pkg.Pkg
		}
	}
	name := path
	if i := strings.LastIndex(path, "/"); i >= 0 {
		name = path[i+1:]
	}
	return types.NewPackage(path, name)
}
