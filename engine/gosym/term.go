// Package gosym is a forking symbolic executor for the go/ssa form of Go
// programs.  It started from golang.org/x/tools/go/ssa/interp (BSD licence,
// The Go Authors) and adds symbolic values, an SMT back end, a reflection
// model and path exploration by re-execution.
package gosym

import (
	"fmt"
	"strings"
)

// Op is a term constructor.
type Op uint8

const (
	OpVar Op = iota
	OpConst
	OpNot
	OpAnd
	OpOr
	OpEq
	OpIte
	OpAdd
	OpSub
	OpMul
	OpUDiv
	OpSDiv
	OpURem
	OpSRem
	OpBAnd
	OpBOr
	OpBXor
	OpShl
	OpLShr
	OpAShr
	OpNeg
	OpBNot
	OpULt
	OpULe
	OpSLt
	OpSLe
	OpZExt
	OpSExt
	OpExtract // val = lo; width w
)

var opNames = [...]string{"var", "const", "not", "and", "or", "=", "ite", "bvadd", "bvsub", "bvmul", "bvudiv", "bvsdiv", "bvurem", "bvsrem",
	"bvand", "bvor", "bvxor", "bvshl", "bvlshr", "bvashr", "bvneg", "bvnot", "bvult", "bvule", "bvslt", "bvsle", "zext", "sext", "extract"}

// Term is a hash-consed SMT term.  w == 0 means sort Bool, otherwise a
// bit-vector of width w.
type Term struct {
	op      Op
	w       uint8
	a, b, c *Term
	val     uint64
	name    string
	id      int
}

type termKey struct {
	op      Op
	w       uint8
	a, b, c int
	val     uint64
	name    string
}

// Terms is a per-path term store.
type Terms struct {
	tab  map[termKey]*Term
	all  []*Term
	T, F *Term
}

func NewTerms() *Terms {
	ts := &Terms{tab: make(map[termKey]*Term)}
	ts.T = ts.mk(OpConst, 0, nil, nil, nil, 1, "")
	ts.F = ts.mk(OpConst, 0, nil, nil, nil, 0, "")
	return ts
}

func tid(t *Term) int {
	if t == nil {
		return -1
	}
	return t.id
}

func (ts *Terms) mk(op Op, w uint8, a, b, c *Term, val uint64, name string) *Term {
	k := termKey{op, w, tid(a), tid(b), tid(c), val, name}
	if t, ok := ts.tab[k]; ok {
		return t
	}
	t := &Term{op: op, w: w, a: a, b: b, c: c, val: val, name: name, id: len(ts.all)}
	ts.tab[k] = t
	ts.all = append(ts.all, t)
	return t
}

func mask(w uint8) uint64 {
	if w >= 64 {
		return ^uint64(0)
	}
	return (uint64(1) << w) - 1
}

func sext(v uint64, w uint8) int64 {
	if w >= 64 {
		return int64(v)
	}
	sh := 64 - uint(w)
	return int64(v<<sh) >> sh
}

func (t *Term) IsConst() bool { return t.op == OpConst }
func (t *Term) IsTrue() bool  { return t.op == OpConst && t.w == 0 && t.val == 1 }
func (t *Term) IsFalse() bool { return t.op == OpConst && t.w == 0 && t.val == 0 }

func (ts *Terms) Var(name string, w uint8) *Term { return ts.mk(OpVar, w, nil, nil, nil, 0, name) }
func (ts *Terms) Const(v uint64, w uint8) *Term {
	return ts.mk(OpConst, w, nil, nil, nil, v&mask(w), "")
}
func (ts *Terms) Bool(b bool) *Term {
	if b {
		return ts.T
	}
	return ts.F
}

func (ts *Terms) Not(a *Term) *Term {
	if a.IsConst() {
		return ts.Bool(a.val == 0)
	}
	if a.op == OpNot {
		return a.a
	}
	return ts.mk(OpNot, 0, a, nil, nil, 0, "")
}

func (ts *Terms) And(a, b *Term) *Term {
	if a.IsFalse() || b.IsFalse() {
		return ts.F
	}
	if a.IsTrue() {
		return b
	}
	if b.IsTrue() || a == b {
		return a
	}
	if a.id > b.id {
		a, b = b, a
	}
	return ts.mk(OpAnd, 0, a, b, nil, 0, "")
}

func (ts *Terms) Or(a, b *Term) *Term {
	if a.IsTrue() || b.IsTrue() {
		return ts.T
	}
	if a.IsFalse() {
		return b
	}
	if b.IsFalse() || a == b {
		return a
	}
	if a.id > b.id {
		a, b = b, a
	}
	return ts.mk(OpOr, 0, a, b, nil, 0, "")
}

func (ts *Terms) Eq(a, b *Term) *Term {
	if a.w != b.w {
		panic(fmt.Sprintf("Eq: sort mismatch %d %d", a.w, b.w))
	}
	if a == b {
		return ts.T
	}
	if a.IsConst() && b.IsConst() {
		return ts.Bool(a.val == b.val)
	}
	if a.w == 0 {
		if a.IsConst() {
			a, b = b, a
		}
		if b.IsTrue() {
			return a
		}
		if b.IsFalse() {
			return ts.Not(a)
		}
	}
	if a.id > b.id {
		a, b = b, a
	}
	return ts.mk(OpEq, 0, a, b, nil, 0, "")
}

func (ts *Terms) Ite(c, a, b *Term) *Term {
	if c.IsTrue() {
		return a
	}
	if c.IsFalse() {
		return b
	}
	if a == b {
		return a
	}
	return ts.mk(OpIte, a.w, c, a, b, 0, "")
}

// Bin builds a binary bit-vector operation or comparison.
func (ts *Terms) Bin(op Op, a, b *Term) *Term {
	if a.w != b.w || a.w == 0 {
		panic(fmt.Sprintf("Bin %s: sort mismatch %d %d", opNames[op], a.w, b.w))
	}
	w := a.w
	cmp := op == OpULt || op == OpULe || op == OpSLt || op == OpSLe
	if a.IsConst() && b.IsConst() {
		x, y := a.val, b.val
		sx, sy := sext(x, w), sext(y, w)
		switch op {
		case OpAdd:
			return ts.Const(x+y, w)
		case OpSub:
			return ts.Const(x-y, w)
		case OpMul:
			return ts.Const(x*y, w)
		case OpUDiv:
			if y != 0 {
				return ts.Const(x/y, w)
			}
		case OpURem:
			if y != 0 {
				return ts.Const(x%y, w)
			}
		case OpSDiv:
			if y != 0 {
				return ts.Const(uint64(sx/sy), w)
			}
		case OpSRem:
			if y != 0 {
				return ts.Const(uint64(sx%sy), w)
			}
		case OpBAnd:
			return ts.Const(x&y, w)
		case OpBOr:
			return ts.Const(x|y, w)
		case OpBXor:
			return ts.Const(x^y, w)
		case OpShl:
			if y >= uint64(w) {
				return ts.Const(0, w)
			}
			return ts.Const(x<<y, w)
		case OpLShr:
			if y >= uint64(w) {
				return ts.Const(0, w)
			}
			return ts.Const(x>>y, w)
		case OpAShr:
			if y >= uint64(w) {
				y = uint64(w) - 1
			}
			return ts.Const(uint64(sx>>y), w)
		case OpULt:
			return ts.Bool(x < y)
		case OpULe:
			return ts.Bool(x <= y)
		case OpSLt:
			return ts.Bool(sx < sy)
		case OpSLe:
			return ts.Bool(sx <= sy)
		}
	}
	if a == b {
		switch op {
		case OpULe, OpSLe:
			return ts.T
		case OpULt, OpSLt:
			return ts.F
		case OpSub, OpBXor:
			return ts.Const(0, w)
		case OpBAnd, OpBOr:
			return a
		}
	}
	switch op {
	case OpAdd, OpBOr, OpBXor:
		if a.IsConst() && a.val == 0 {
			return b
		}
		if b.IsConst() && b.val == 0 {
			return a
		}
	case OpSub, OpShl, OpLShr, OpAShr:
		if b.IsConst() && b.val == 0 {
			return a
		}
	}
	rw := w
	if cmp {
		rw = 0
	}
	return ts.mk(op, rw, a, b, nil, 0, "")
}

func (ts *Terms) Un(op Op, a *Term) *Term {
	if a.IsConst() {
		switch op {
		case OpNeg:
			return ts.Const(-a.val, a.w)
		case OpBNot:
			return ts.Const(^a.val, a.w)
		}
	}
	return ts.mk(op, a.w, a, nil, nil, 0, "")
}

// Resize converts a bit-vector to width w (truncate, or zero/sign extend).
func (ts *Terms) Resize(a *Term, w uint8, signed bool) *Term {
	if a.w == w {
		return a
	}
	if a.IsConst() {
		if w > a.w && signed {
			return ts.Const(uint64(sext(a.val, a.w)), w)
		}
		return ts.Const(a.val, w)
	}
	if w < a.w {
		return ts.mk(OpExtract, w, a, nil, nil, 0, "")
	}
	if signed {
		return ts.mk(OpSExt, w, a, nil, nil, 0, "")
	}
	return ts.mk(OpZExt, w, a, nil, nil, 0, "")
}

func sortStr(w uint8) string {
	if w == 0 {
		return "Bool"
	}
	return fmt.Sprintf("(_ BitVec %d)", w)
}

func constStr(v uint64, w uint8) string {
	if w == 0 {
		if v != 0 {
			return "true"
		}
		return "false"
	}
	if w%4 == 0 {
		return fmt.Sprintf("#x%0*x", int(w/4), v)
	}
	return fmt.Sprintf("#b%0*b", int(w), v)
}

func (t *Term) ref() string {
	switch t.op {
	case OpConst:
		return constStr(t.val, t.w)
	case OpVar:
		return t.name
	}
	return fmt.Sprintf("t%d", t.id)
}

// body renders the defining expression of t in terms of references to its
// children.
func (t *Term) body() string {
	switch t.op {
	case OpZExt:
		return fmt.Sprintf("((_ zero_extend %d) %s)", t.w-t.a.w, t.a.ref())
	case OpSExt:
		return fmt.Sprintf("((_ sign_extend %d) %s)", t.w-t.a.w, t.a.ref())
	case OpExtract:
		return fmt.Sprintf("((_ extract %d 0) %s)", t.w-1, t.a.ref())
	}
	var sb strings.Builder
	sb.WriteByte('(')
	sb.WriteString(opNames[t.op])
	for _, x := range []*Term{t.a, t.b, t.c} {
		if x != nil {
			sb.WriteByte(' ')
			sb.WriteString(x.ref())
		}
	}
	sb.WriteByte(')')
	return sb.String()
}

// String renders the term fully expanded (for diagnostics and samples).
func (t *Term) String() string {
	switch t.op {
	case OpConst, OpVar:
		return t.ref()
	case OpZExt, OpSExt, OpExtract:
		return fmt.Sprintf("(%s%d %s)", opNames[t.op], t.w, t.a)
	}
	var sb strings.Builder
	sb.WriteByte('(')
	sb.WriteString(opNames[t.op])
	for _, x := range []*Term{t.a, t.b, t.c} {
		if x != nil {
			sb.WriteByte(' ')
			sb.WriteString(x.String())
		}
	}
	sb.WriteByte(')')
	return sb.String()
}

// Eval evaluates t under a model (variable name -> value).  Unassigned
// variables evaluate to 0.
func (t *Term) Eval(m map[string]uint64) uint64 {
	return t.eval(func(v *Term) uint64 { return m[v.name] })
}

func (t *Term) eval(env func(*Term) uint64) uint64 {
	switch t.op {
	case OpConst:
		return t.val
	case OpVar:
		v := env(t)
		if t.w == 0 {
			return bool2u(v != 0)
		}
		return v & mask(t.w)
	}
	var x, y, z uint64
	if t.a != nil {
		x = t.a.eval(env)
	}
	if t.b != nil {
		y = t.b.eval(env)
	}
	if t.c != nil {
		z = t.c.eval(env)
	}
	w := t.w
	if t.a != nil && t.a.w != 0 && (t.op >= OpULt && t.op <= OpSLe || t.op == OpEq) {
		w = t.a.w
	}
	m := mask(w)
	switch t.op {
	case OpNot:
		return bool2u(x == 0)
	case OpAnd:
		return bool2u(x != 0 && y != 0)
	case OpOr:
		return bool2u(x != 0 || y != 0)
	case OpEq:
		return bool2u(x == y)
	case OpIte:
		if x != 0 {
			return y
		}
		return z
	case OpAdd:
		return (x + y) & m
	case OpSub:
		return (x - y) & m
	case OpMul:
		return (x * y) & m
	case OpUDiv:
		if y == 0 {
			return m
		}
		return x / y
	case OpURem:
		if y == 0 {
			return x
		}
		return x % y
	case OpSDiv:
		sx, sy := sext(x, w), sext(y, w)
		if sy == 0 {
			if sx < 0 {
				return 1
			}
			return m
		}
		if sy == -1 {
			return uint64(-sx) & m
		}
		return uint64(sx/sy) & m
	case OpSRem:
		sx, sy := sext(x, w), sext(y, w)
		if sy == 0 {
			return x
		}
		if sy == -1 {
			return 0
		}
		return uint64(sx%sy) & m
	case OpBAnd:
		return x & y
	case OpBOr:
		return x | y
	case OpBXor:
		return x ^ y
	case OpShl:
		if y >= uint64(w) {
			return 0
		}
		return (x << y) & m
	case OpLShr:
		if y >= uint64(w) {
			return 0
		}
		return x >> y
	case OpAShr:
		if y >= uint64(w) {
			y = uint64(w) - 1
		}
		return uint64(sext(x, w)>>y) & m
	case OpNeg:
		return (-x) & m
	case OpBNot:
		return (^x) & m
	case OpULt:
		return bool2u(x < y)
	case OpULe:
		return bool2u(x <= y)
	case OpSLt:
		return bool2u(sext(x, w) < sext(y, w))
	case OpSLe:
		return bool2u(sext(x, w) <= sext(y, w))
	case OpZExt:
		return x
	case OpSExt:
		return uint64(sext(x, t.a.w)) & mask(t.w)
	case OpExtract:
		return x & mask(t.w)
	}
	panic("eval: bad op")
}

func bool2u(b bool) uint64 {
	if b {
		return 1
	}
	return 0
}
