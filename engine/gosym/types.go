package gosym

import (
	"fmt"
	"go/token"
	"go/types"
)

// Host-implemented named types.  Values of these types have no SSA methods;
// method calls are dispatched to the engine.
var hostPkg = types.NewPackage("gosym/host", "host")

func makeHostNamed(name string) *types.Named {
	obj := types.NewTypeName(token.NoPos, hostPkg, name, nil)
	return types.NewNamed(obj, types.NewStruct(nil, nil), nil)
}

var (
	rtypeType    = makeHostNamed("rtype")
	fmtStateType = makeHostNamed("fmtState")
	hostErrType  = makeHostNamed("hostError")
)

var rtypeMethodNames = map[string]bool{}
var fmtStateMethodNames = map[string]bool{"Write": true, "WriteString": true, "Width": true, "Precision": true, "Flag": true}
var hostErrMethodNames = map[string]bool{"Error": true}

// NumSymTypes is the size of the universe of symbolic plain types (vT0..vT7
// in the native harness).
const NumSymTypes = 16

// newSymType creates a fresh symbolic plain type and returns the
// reflect.Type value of a pointer to it.
func (p *Path) newSymType(name string) value {
	id := p.freshVar(name, 8, "type", NumSymTypes)
	p.addPC(p.ts.Bin(OpULt, id, p.ts.Const(NumSymTypes, 8)))
	obj := types.NewTypeName(token.NoPos, p.P.Main.Pkg, fmt.Sprintf("vT?%d", len(p.symTypes)), nil)
	st := types.NewStruct([]*types.Var{
		types.NewField(token.NoPos, p.P.Main.Pkg, "Tok", types.Typ[types.Int64], false),
	}, nil)
	named := types.NewNamed(obj, st, nil)
	p.symTypes[named] = id
	return mkRType(types.NewPointer(named))
}

func mkRType(t types.Type) value {
	if t == nil {
		return iface{}
	}
	return iface{rtypeType, rtype{t}}
}

// hasSym reports whether t mentions a symbolic type.
func (p *Path) hasSym(t types.Type) bool {
	if len(p.symTypes) == 0 {
		return false
	}
	if v, ok := p.hasSymCache[t]; ok {
		return v
	}
	p.hasSymCache[t] = false // cycle guard
	r := false
	switch t := t.(type) {
	case *types.Named:
		_, r = p.symTypes[t]
	case *types.Alias:
		r = p.hasSym(types.Unalias(t))
	case *types.Pointer:
		r = p.hasSym(t.Elem())
	case *types.Slice:
		r = p.hasSym(t.Elem())
	case *types.Array:
		r = p.hasSym(t.Elem())
	case *types.Map:
		r = p.hasSym(t.Key()) || p.hasSym(t.Elem())
	case *types.Chan:
		r = p.hasSym(t.Elem())
	case *types.Struct:
		for i := 0; i < t.NumFields(); i++ {
			if p.hasSym(t.Field(i).Type()) {
				r = true
				break
			}
		}
	case *types.Signature:
		for i := 0; i < t.Params().Len(); i++ {
			if p.hasSym(t.Params().At(i).Type()) {
				r = true
			}
		}
		for i := 0; i < t.Results().Len(); i++ {
			if p.hasSym(t.Results().At(i).Type()) {
				r = true
			}
		}
	case *types.Tuple:
		for i := 0; i < t.Len(); i++ {
			if p.hasSym(t.At(i).Type()) {
				r = true
			}
		}
	}
	p.hasSymCache[t] = r
	return r
}

// typeEq returns the Bool term "a and b are the same type".
func (p *Path) typeEq(a, b types.Type) *Term {
	ts := p.ts
	if a == b {
		return ts.T
	}
	if a == nil || b == nil {
		return ts.F
	}
	a, b = types.Unalias(a), types.Unalias(b)
	if !p.hasSym(a) && !p.hasSym(b) {
		return ts.Bool(types.Identical(a, b))
	}
	switch a := a.(type) {
	case *types.Named:
		bn, ok := b.(*types.Named)
		if !ok {
			return ts.F
		}
		ia, sa := p.symTypes[a]
		ib, sb := p.symTypes[bn]
		if sa && sb {
			return ts.Eq(ia, ib)
		}
		if sa || sb {
			return ts.F
		}
		return ts.Bool(types.Identical(a, bn))
	case *types.Pointer:
		if b, ok := b.(*types.Pointer); ok {
			return p.typeEq(a.Elem(), b.Elem())
		}
	case *types.Slice:
		if b, ok := b.(*types.Slice); ok {
			return p.typeEq(a.Elem(), b.Elem())
		}
	case *types.Array:
		if b, ok := b.(*types.Array); ok && a.Len() == b.Len() {
			return p.typeEq(a.Elem(), b.Elem())
		}
	case *types.Map:
		if b, ok := b.(*types.Map); ok {
			return ts.And(p.typeEq(a.Key(), b.Key()), p.typeEq(a.Elem(), b.Elem()))
		}
	case *types.Chan:
		if b, ok := b.(*types.Chan); ok && a.Dir() == b.Dir() {
			return p.typeEq(a.Elem(), b.Elem())
		}
	case *types.Struct:
		b, ok := b.(*types.Struct)
		if !ok || a.NumFields() != b.NumFields() {
			return ts.F
		}
		r := ts.T
		for i := 0; i < a.NumFields(); i++ {
			fa, fb := a.Field(i), b.Field(i)
			if fa.Name() != fb.Name() || fa.Embedded() != fb.Embedded() || a.Tag(i) != b.Tag(i) {
				return ts.F
			}
			if !fa.Exported() && !samePkg(fa.Pkg(), fb.Pkg()) {
				return ts.F
			}
			r = ts.And(r, p.typeEq(fa.Type(), fb.Type()))
			if r.IsFalse() {
				return r
			}
		}
		return r
	case *types.Signature:
		b, ok := b.(*types.Signature)
		if !ok || a.Variadic() != b.Variadic() {
			return ts.F
		}
		return ts.And(p.tupleEq(a.Params(), b.Params()), p.tupleEq(a.Results(), b.Results()))
	case *types.Basic:
		if b, ok := b.(*types.Basic); ok {
			return ts.Bool(a.Kind() == b.Kind())
		}
	case *types.Interface:
		if b, ok := b.(*types.Interface); ok {
			return ts.Bool(types.Identical(a, b))
		}
	}
	return ts.F
}

func samePkg(a, b *types.Package) bool {
	if a == nil || b == nil {
		return a == b
	}
	return a.Path() == b.Path()
}

func (p *Path) tupleEq(a, b *types.Tuple) *Term {
	if a.Len() != b.Len() {
		return p.ts.F
	}
	r := p.ts.T
	for i := 0; i < a.Len(); i++ {
		r = p.ts.And(r, p.typeEq(a.At(i).Type(), b.At(i).Type()))
		if r.IsFalse() {
			return r
		}
	}
	return r
}

// typeString renders a type the way reflect.Type.String does (package
// names, not paths).
func (p *Path) typeString(t types.Type) string {
	return types.TypeString(t, func(pkg *types.Package) string { return pkg.Name() })
}
