package gosym

import (
	"fmt"
	"go/types"
	"sort"
	"strings"

	"golang.org/x/tools/go/ssa"
)

// Decision is one recorded outcome at a decide/concretise point.
type Decision struct {
	V      int64
	Forced bool // only one outcome was feasible (not a fork)
}

// NondetRec records one call of a verifNd* function on the path.
type NondetRec struct {
	Seq  int    `json:"seq"`
	Name string `json:"name"`
	Kind string `json:"kind"` // int | bool | i64 | type
	Var  string `json:"var"`
	N    int    `json:"n,omitempty"`
	term *Term
}

// Violation is a failed assertion with the solver's model.
type Violation struct {
	Clause string
	Detail string
	Model  map[string]uint64
	Kind   string // assert | panic | fuel
}

// Path is the state of one symbolic execution from the entry point.
type Path struct {
	P      *Program
	ts     *Terms
	solver *Solver

	prefix []Decision
	pos    int
	taken  []Decision
	alts   [][]Decision // alternative prefixes discovered on this path

	pc       []*Term
	asserted int // pc[:asserted] has been sent to the solver
	facts    map[*Term]bool

	globals map[*ssa.Global]*value
	steps   int64
	depth   int

	nondets   []NondetRec
	symTypes  map[*types.Named]*Term
	witnesses map[string]bool
	observes  []string
	nameSeq   map[string]int

	// results
	Violations   []Violation
	Forks        int
	AssertsZ3    int
	AssertsRewr  int
	AssumeChecks int
	Inconclusive []string
	fnCount      map[*ssa.Function]int
	hasSymCache  map[types.Type]bool
	fakeAddr     map[*value]uint64
	unknownFeas  int
	vinfo        map[*Term]*varInfo
	tvars        map[*Term][]*Term
	Shortcuts    int
	unsent       []*Term
	syncSt       *syncState
}

// varInfo tracks the remaining domain of a small-range variable as long as
// every path-condition conjunct mentioning it mentions no other variable
// ("isolated").  For such variables feasibility is decided by evaluation over
// the domain instead of a solver call (exact, not an approximation).
type varInfo struct {
	dom      []uint64
	isolated bool
}

func (p *Path) termVars(t *Term) []*Term {
	if t.op == OpConst {
		return nil
	}
	if vs, ok := p.tvars[t]; ok {
		return vs
	}
	var vs []*Term
	if t.op == OpVar {
		vs = []*Term{t}
	} else {
		for _, x := range []*Term{t.a, t.b, t.c} {
			if x == nil {
				continue
			}
			for _, v := range p.termVars(x) {
				dup := false
				for _, u := range vs {
					if u == v {
						dup = true
					}
				}
				if !dup {
					vs = append(vs, v)
				}
			}
		}
	}
	p.tvars[t] = vs
	return vs
}

// isolatedVar returns the single isolated small-domain variable of t, if any.
func (p *Path) isolatedVar(t *Term) (*Term, *varInfo) {
	vs := p.termVars(t)
	if len(vs) != 1 {
		return nil, nil
	}
	vi := p.vinfo[vs[0]]
	if vi == nil || !vi.isolated {
		return nil, nil
	}
	return vs[0], vi
}

func evalWith(t, v *Term, val uint64) uint64 {
	return t.eval(func(x *Term) uint64 { return val })
}

func (P *Program) NewPath(solver *Solver, prefix []Decision) *Path {
	solver.Reset()
	return &Path{
		P: P, ts: NewTerms(), solver: solver, prefix: prefix,
		facts:       make(map[*Term]bool),
		globals:     make(map[*ssa.Global]*value),
		symTypes:    make(map[*types.Named]*Term),
		witnesses:   make(map[string]bool),
		nameSeq:     make(map[string]int),
		fnCount:     make(map[*ssa.Function]int),
		hasSymCache: make(map[types.Type]bool),
		fakeAddr:    make(map[*value]uint64),
		vinfo:       make(map[*Term]*varInfo),
		tvars:       make(map[*Term][]*Term),
	}
}

func (p *Path) count(fn *ssa.Function) { p.fnCount[fn]++ }

// replaying reports whether the path is still inside its given prefix.
func (p *Path) replaying() bool { return p.pos < len(p.prefix) }

// flush sends pending path-condition conjuncts to the solver.  Conjuncts over
// a single isolated variable are independent of every other constraint and
// are held back (independence slicing) until that variable stops being
// isolated or a full model is needed.
func (p *Path) flush() { p.flushMode(false) }

func (p *Path) flushAll() { p.flushMode(true) }

// prepare makes the solver context complete for a query about t: variables
// of t stop being isolated (their held-back constraints are sent).
func (p *Path) prepare(t *Term) {
	for _, v := range p.termVars(t) {
		if vi := p.vinfo[v]; vi != nil {
			vi.isolated = false
		}
	}
	p.flush()
}

func (p *Path) flushMode(all bool) {
	for ; p.asserted < len(p.pc); p.asserted++ {
		p.unsent = append(p.unsent, p.pc[p.asserted])
	}
	keep := p.unsent[:0]
	for _, t := range p.unsent {
		if !all {
			if v, _ := p.isolatedVar(t); v != nil {
				keep = append(keep, t)
				continue
			}
		}
		p.solver.Assert(t)
	}
	p.unsent = keep
}

func (p *Path) addPC(t *Term) {
	if t.IsTrue() {
		return
	}
	p.pc = append(p.pc, t)
	p.learn(t, true)
	if v, vi := p.isolatedVar(t); v != nil {
		var nd []uint64
		for _, x := range vi.dom {
			if evalWith(t, v, x) != 0 {
				nd = append(nd, x)
			}
		}
		vi.dom = nd
	} else {
		for _, v := range p.termVars(t) {
			if vi := p.vinfo[v]; vi != nil {
				vi.isolated = false
			}
		}
	}
}

func (p *Path) learn(t *Term, val bool) {
	p.facts[t] = val
	if t.op == OpNot {
		p.learn(t.a, !val)
		return
	}
	if val && t.op == OpAnd {
		p.learn(t.a, true)
		p.learn(t.b, true)
	}
	if !val && t.op == OpOr {
		p.learn(t.a, false)
		p.learn(t.b, false)
	}
}

func (p *Path) known(t *Term) (bool, bool) {
	if t.IsConst() {
		return t.val != 0, true
	}
	if v, ok := p.facts[t]; ok {
		return v, true
	}
	if t.op == OpNot {
		if v, ok := p.known(t.a); ok {
			return !v, true
		}
	}
	if t.op == OpAnd {
		va, oka := p.known(t.a)
		vb, okb := p.known(t.b)
		if (oka && !va) || (okb && !vb) {
			return false, true
		}
		if oka && okb {
			return va && vb, true
		}
	}
	if t.op == OpOr {
		va, oka := p.known(t.a)
		vb, okb := p.known(t.b)
		if (oka && va) || (okb && vb) {
			return true, true
		}
		if oka && okb {
			return va || vb, true
		}
	}
	return false, false
}

// decide chooses the truth value of t on this path, forking if both are
// feasible under the path condition.
func (p *Path) decide(t *Term, why string) bool {
	if v, ok := p.known(t); ok {
		return v
	}
	var d Decision
	if p.replaying() {
		d = p.prefix[p.pos]
		p.pos++
	} else {
		var feasT, feasF bool
		if v, vi := p.isolatedVar(t); v != nil {
			p.Shortcuts++
			for _, x := range vi.dom {
				if evalWith(t, v, x) != 0 {
					feasT = true
				} else {
					feasF = true
				}
			}
		} else {
			p.prepare(t)
			rT := p.solver.Check(t)
			feasT = rT != Unsat
			feasF = true
			if feasT {
				rF := p.solver.Check(p.ts.Not(t))
				feasF = rF != Unsat
				if rF == Unknown {
					p.unknownFeas++
				}
			}
			if rT == Unknown {
				p.unknownFeas++
			}
		}
		switch {
		case feasT && feasF:
			alt := append(append([]Decision(nil), p.taken...), Decision{V: 0})
			p.alts = append(p.alts, alt)
			d = Decision{V: 1}
			p.Forks++
		case feasT:
			d = Decision{V: 1, Forced: true}
		case feasF:
			d = Decision{V: 0, Forced: true}
		default:
			panic(pathAbort{"infeasible path condition at " + why})
		}
	}
	p.taken = append(p.taken, d)
	if d.V != 0 {
		p.addPC(t)
		return true
	}
	p.addPC(p.ts.Not(t))
	return false
}

// concretise picks a concrete value for a symbolic integer, forking over all
// feasible values.
func (p *Path) concretise(s *Sym, why string) value {
	if s.t.IsConst() {
		return mkInt(s.k, s.t.val)
	}
	var d Decision
	if p.replaying() {
		d = p.prefix[p.pos]
		p.pos++
	} else {
		var vals []uint64
		complete := true
		if v, vi := p.isolatedVar(s.t); v != nil {
			p.Shortcuts++
			seen := map[uint64]bool{}
			for _, x := range vi.dom {
				y := evalWith(s.t, v, x)
				if !seen[y] {
					seen[y] = true
					vals = append(vals, y)
				}
			}
		} else {
			p.prepare(s.t)
			vals, complete = p.solver.Enumerate(s.t, p.P.Limits.MaxConc)
		}
		if !complete {
			panic(fuelExhausted{"concretise(" + why + "): more than " + fmt.Sprint(p.P.Limits.MaxConc) + " feasible values (missing verifAssume?)"})
		}
		if len(vals) == 0 {
			panic(pathAbort{"infeasible path condition at concretise " + why})
		}
		sort.Slice(vals, func(i, j int) bool { return vals[i] < vals[j] })
		for _, v := range vals[1:] {
			alt := append(append([]Decision(nil), p.taken...), Decision{V: int64(v)})
			p.alts = append(p.alts, alt)
		}
		d = Decision{V: int64(vals[0]), Forced: len(vals) == 1}
		if len(vals) > 1 {
			p.Forks++
		}
	}
	p.taken = append(p.taken, d)
	c := p.ts.Const(uint64(d.V), s.t.w)
	p.addPC(p.ts.Eq(s.t, c))
	return mkInt(s.k, uint64(d.V))
}

// assume adds t to the path condition, ending the path if that is infeasible.
func (p *Path) assume(t *Term, why string) {
	if v, ok := p.known(t); ok {
		if !v {
			panic(pathAbort{"assumption false: " + why})
		}
		return
	}
	if !p.replaying() {
		if v, vi := p.isolatedVar(t); v != nil {
			ok := false
			for _, x := range vi.dom {
				if evalWith(t, v, x) != 0 {
					ok = true
				}
			}
			if !ok {
				panic(pathAbort{"assumption infeasible: " + why})
			}
		} else {
			p.prepare(t)
			p.AssumeChecks++
			if p.solver.Check(t) == Unsat {
				panic(pathAbort{"assumption infeasible: " + why})
			}
		}
	}
	p.addPC(t)
}

// assert checks that t holds for every input of this path.
func (p *Path) assert(clause string, t *Term, detail string) {
	if p.replaying() {
		return // discharged by the path that owned this point
	}
	if v, ok := p.known(t); ok {
		if v {
			p.AssertsRewr++
			return
		}
		p.flushAll()
		_, m := p.solver.Model(nil)
		p.Violations = append(p.Violations, Violation{Clause: clause, Detail: detail, Model: m, Kind: "assert"})
		panic(pathAbort{"violation " + clause})
	}
	p.prepare(t)
	p.AssertsZ3++
	if p.solver.Check(p.ts.Not(t)) == Unsat {
		return
	}
	p.flushAll()
	r, m := p.solver.Model(p.ts.Not(t))
	switch r {
	case Unsat:
		return
	case Sat:
		p.Violations = append(p.Violations, Violation{Clause: clause, Detail: detail + " cond=" + t.String(), Model: m, Kind: "assert"})
		// continue on the side where the assertion holds, if any
		p.assume(t, "after violated assertion "+clause)
	default:
		p.Inconclusive = append(p.Inconclusive, "solver unknown on assertion "+clause+": "+p.solver.LastError)
	}
}

// FinalModel returns a model of the complete path condition.
func (p *Path) FinalModel() map[string]uint64 {
	p.flushAll()
	r, m := p.solver.Model(nil)
	if r != Sat {
		return nil
	}
	return m
}

func sanitize(s string) string {
	var sb strings.Builder
	for _, c := range s {
		if c >= 'a' && c <= 'z' || c >= 'A' && c <= 'Z' || c >= '0' && c <= '9' || c == '_' {
			sb.WriteRune(c)
		} else {
			sb.WriteByte('_')
		}
	}
	return sb.String()
}

func (p *Path) freshVar(name string, w uint8, kind string, n int) *Term {
	seq := len(p.nondets)
	vn := fmt.Sprintf("n%d_%s", seq, sanitize(name))
	t := p.ts.Var(vn, w)
	p.nondets = append(p.nondets, NondetRec{Seq: seq, Name: name, Kind: kind, Var: vn, N: n, term: t})
	return t
}

// ---- harness hooks -------------------------------------------------------------------

type hookFn func(p *Path, fr *frame, args []value) value

var harnessHooks map[string]hookFn

func init() {
	harnessHooks = map[string]hookFn{
		"verifNdInt": func(p *Path, fr *frame, args []value) value {
			n := asInt(args[1])
			if n <= 0 {
				panic(pathAbort{"verifNdInt with empty range"})
			}
			if n == 1 {
				// still record, so that native replay stays in step
				t := p.freshVar(args[0].(string), 64, "int", n)
				p.addPC(p.ts.Eq(t, p.ts.Const(0, 64)))
				return int(0)
			}
			t := p.freshVar(args[0].(string), 64, "int", n)
			if n <= 64 {
				vi := &varInfo{isolated: true}
				for i := 0; i < n; i++ {
					vi.dom = append(vi.dom, uint64(i))
				}
				p.vinfo[t] = vi
			}
			p.addPC(p.ts.Bin(OpULt, t, p.ts.Const(uint64(n), 64)))
			return &Sym{k: types.Int, t: t}
		},
		"verifNdBool": func(p *Path, fr *frame, args []value) value {
			t := p.freshVar(args[0].(string), 0, "bool", 0)
			p.vinfo[t] = &varInfo{isolated: true, dom: []uint64{0, 1}}
			return &Sym{k: types.Bool, t: t}
		},
		"verifNdI64": func(p *Path, fr *frame, args []value) value {
			t := p.freshVar(args[0].(string), 64, "i64", 0)
			return &Sym{k: types.Int64, t: t}
		},
		"verifNdType": func(p *Path, fr *frame, args []value) value {
			return p.newSymType(args[0].(string))
		},
		"verifAssume": func(p *Path, fr *frame, args []value) value {
			t, _, _ := p.termOf(args[0])
			p.assume(t, "verifAssume")
			return nil
		},
		"verifAssert": func(p *Path, fr *frame, args []value) value {
			t, _, _ := p.termOf(args[1])
			p.assert(args[0].(string), t, "")
			return nil
		},
		"verifWitness": func(p *Path, fr *frame, args []value) value {
			p.witnesses[args[0].(string)] = true
			return nil
		},
		"verifObserve": func(p *Path, fr *frame, args []value) value {
			p.observes = append(p.observes, args[0].(string))
			return nil
		},
		"verifSymbolic": func(p *Path, fr *frame, args []value) value {
			return true
		},
	}
}
