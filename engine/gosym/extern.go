package gosym

import (
	"fmt"
	"go/token"
	"go/types"
	"reflect"
	"strconv"
	"strings"

	"golang.org/x/tools/go/ssa"
)

// Remaining intrinsics: errors (S6), strings/strconv leaves (S4), math/rand
// (S7), time (S8), runtime (S9).

func strSlice(v value) []string {
	s, _ := v.([]value)
	r := make([]string, len(s))
	for i, e := range s {
		r[i] = e.(string)
	}
	return r
}

func strVals(ss []string) value {
	r := make([]value, len(ss))
	for i, s := range ss {
		r[i] = s
	}
	return r
}

func (p *Path) hostError(msg string) iface {
	return iface{hostErrType, &hostObj{kind: "error", data: msg}}
}

// callMethodByName calls method name on the dynamic value of x if it has one
// with the given arity; ok reports whether it exists.
func (p *Path) methodOf(x iface, name string, nparams int) *ssa.Function {
	if x.t == nil {
		return nil
	}
	m := p.findMethod(x.t, name)
	if m == nil || m.Signature.Params().Len() != nparams {
		return nil
	}
	return m
}

func (p *Path) errUnwrap(fr *frame, err iface) (single iface, multi []value, kind int) {
	if m := p.methodOf(err, "Unwrap", 0); m != nil && m.Signature.Results().Len() == 1 {
		rt := m.Signature.Results().At(0).Type()
		if _, ok := rt.Underlying().(*types.Slice); ok {
			r, _ := p.call(fr, token.NoPos, m, []value{err.v}).([]value)
			return iface{}, r, 2
		}
		if types.Identical(rt, types.Universe.Lookup("error").Type()) {
			return p.call(fr, token.NoPos, m, []value{err.v}).(iface), nil, 1
		}
	}
	return iface{}, nil, 0
}

func (p *Path) errorsIs(fr *frame, err, target iface) bool {
	if err.t == nil || target.t == nil {
		return err.t == nil && target.t == nil
	}
	comparable := types.Comparable(target.t)
	for {
		if comparable {
			if p.typeEq(err.t, target.t).IsTrue() && types.Comparable(err.t) {
				if p.decide(p.equals(err.t, err.v, target.v), "errors.Is-eq") {
					return true
				}
			}
		}
		if m := p.methodOf(err, "Is", 1); m != nil && sigIs(m, 1, "bool") {
			if p.truth(p.call(fr, token.NoPos, m, []value{err.v, target}), "errors.Is-method") {
				return true
			}
		}
		single, multi, kind := p.errUnwrap(fr, err)
		switch kind {
		case 1:
			if single.t == nil {
				return false
			}
			err = single
		case 2:
			for _, e := range multi {
				if p.errorsIs(fr, e.(iface), target) {
					return true
				}
			}
			return false
		default:
			return false
		}
	}
}

func (p *Path) errorsAs(fr *frame, err, target iface) bool {
	if err.t == nil {
		return false
	}
	if target.t == nil {
		panic(targetPanic{iface{types.Typ[types.String], "errors: target cannot be nil"}})
	}
	pt, ok := target.t.Underlying().(*types.Pointer)
	cell, _ := target.v.(*value)
	if !ok || cell == nil {
		panic(targetPanic{iface{types.Typ[types.String], "errors: target must be a non-nil pointer"}})
	}
	tt := pt.Elem()
	errIface := types.Universe.Lookup("error").Type().Underlying().(*types.Interface)
	if _, isI := tt.Underlying().(*types.Interface); !isI && !p.implements(tt, errIface) {
		panic(targetPanic{iface{types.Typ[types.String], "errors: *target must be interface or implement error"}})
	}
	for {
		if p.assignable(err.t, tt) {
			store(cell, p.convertTo(err.v, err.t, tt))
			return true
		}
		if m := p.methodOf(err, "As", 1); m != nil && sigIs(m, 1, "bool") {
			if p.truth(p.call(fr, token.NoPos, m, []value{err.v, target}), "errors.As-method") {
				return true
			}
		}
		single, multi, kind := p.errUnwrap(fr, err)
		switch kind {
		case 1:
			if single.t == nil {
				return false
			}
			err = single
		case 2:
			for _, e := range multi {
				if e.(iface).t == nil {
					continue
				}
				if p.errorsAs(fr, e.(iface), target) {
					return true
				}
			}
			return false
		default:
			return false
		}
	}
}

func rtFuncName(f *ssa.Function) string {
	// runtime-style name: pkgpath.Func, pkgpath.(*T).Method, pkgpath.Func.func1
	var parts []string
	for g := f; g != nil; g = g.Parent() {
		parts = append([]string{g.Name()}, parts...)
		if g.Parent() == nil {
			pkg := ""
			if g.Pkg != nil {
				pkg = g.Pkg.Pkg.Path()
			}
			name := g.Name()
			if recv := g.Signature.Recv(); recv != nil {
				rt := recv.Type()
				if pt, ok := rt.(*types.Pointer); ok {
					name = "(*" + pt.Elem().(*types.Named).Obj().Name() + ")." + name
				} else if n, ok := rt.(*types.Named); ok {
					name = n.Obj().Name() + "." + name
				}
			}
			parts[0] = pkg + "." + name
		}
	}
	// closures are named outer$N by go/ssa; the runtime calls them outer.funcN
	full := parts[0]
	for _, c := range parts[1:] {
		if i := strings.LastIndex(c, "$"); i >= 0 {
			full += ".func" + c[i+1:]
		} else {
			full += "." + c
		}
	}
	return full
}

func init() {
	for k, v := range map[string]extFn{
		// ---- errors
		"errors.New": func(p *Path, fr *frame, args []value) value {
			pkg := p.P.Prog.ImportedPackage("errors")
			t := pkg.Type("errorString").Type()
			cell := value(structure{args[0]})
			return iface{types.NewPointer(t), &cell}
		},
		"errors.Is": func(p *Path, fr *frame, args []value) value {
			return p.errorsIs(fr, args[0].(iface), args[1].(iface))
		},
		"errors.As": func(p *Path, fr *frame, args []value) value {
			return p.errorsAs(fr, args[0].(iface), args[1].(iface))
		},
		"errors.Unwrap": func(p *Path, fr *frame, args []value) value {
			err := args[0].(iface)
			if err.t == nil {
				return iface{}
			}
			single, _, kind := p.errUnwrap(fr, err)
			if kind == 1 {
				return single
			}
			return iface{}
		},
		// ---- strings (concrete arguments, host semantics)
		"strings.Index":        func(p *Path, fr *frame, a []value) value { return strings.Index(a[0].(string), a[1].(string)) },
		"strings.LastIndex":    func(p *Path, fr *frame, a []value) value { return strings.LastIndex(a[0].(string), a[1].(string)) },
		"strings.IndexByte":    func(p *Path, fr *frame, a []value) value { return strings.IndexByte(a[0].(string), a[1].(uint8)) },
		"strings.IndexRune":    func(p *Path, fr *frame, a []value) value { return strings.IndexRune(a[0].(string), a[1].(int32)) },
		"strings.Contains":     func(p *Path, fr *frame, a []value) value { return strings.Contains(a[0].(string), a[1].(string)) },
		"strings.ContainsRune": func(p *Path, fr *frame, a []value) value { return strings.ContainsRune(a[0].(string), a[1].(int32)) },
		"strings.HasPrefix":    func(p *Path, fr *frame, a []value) value { return strings.HasPrefix(a[0].(string), a[1].(string)) },
		"strings.HasSuffix":    func(p *Path, fr *frame, a []value) value { return strings.HasSuffix(a[0].(string), a[1].(string)) },
		"strings.Split":        func(p *Path, fr *frame, a []value) value { return strVals(strings.Split(a[0].(string), a[1].(string))) },
		"strings.Join":         func(p *Path, fr *frame, a []value) value { return strings.Join(strSlice(a[0]), a[1].(string)) },
		"strings.Repeat":       func(p *Path, fr *frame, a []value) value { return strings.Repeat(a[0].(string), asInt(a[1])) },
		"strings.TrimSpace":    func(p *Path, fr *frame, a []value) value { return strings.TrimSpace(a[0].(string)) },
		"strings.ToLower":      func(p *Path, fr *frame, a []value) value { return strings.ToLower(a[0].(string)) },
		"strings.Count":        func(p *Path, fr *frame, a []value) value { return strings.Count(a[0].(string), a[1].(string)) },
		"strings.ReplaceAll": func(p *Path, fr *frame, a []value) value {
			return strings.ReplaceAll(a[0].(string), a[1].(string), a[2].(string))
		},
		"strings.TrimPrefix": func(p *Path, fr *frame, a []value) value { return strings.TrimPrefix(a[0].(string), a[1].(string)) },
		"strings.TrimSuffix": func(p *Path, fr *frame, a []value) value { return strings.TrimSuffix(a[0].(string), a[1].(string)) },
		"strings.Fields":     func(p *Path, fr *frame, a []value) value { return strVals(strings.Fields(a[0].(string))) },
		// ---- strconv
		"strconv.Itoa":  func(p *Path, fr *frame, a []value) value { return strconv.Itoa(p.concInt(a[0], "Itoa")) },
		"strconv.Quote": func(p *Path, fr *frame, a []value) value { return strconv.Quote(a[0].(string)) },
		"strconv.FormatInt": func(p *Path, fr *frame, a []value) value {
			return strconv.FormatInt(int64(p.concInt(a[0], "FormatInt")), asInt(a[1]))
		},
		"strconv.Atoi": func(p *Path, fr *frame, a []value) value {
			n, err := strconv.Atoi(a[0].(string))
			if err != nil {
				return tuple{0, p.hostError(err.Error())}
			}
			return tuple{n, iface{}}
		},
		"strconv.ParseBool": func(p *Path, fr *frame, a []value) value {
			b, err := strconv.ParseBool(a[0].(string))
			if err != nil {
				return tuple{false, p.hostError(err.Error())}
			}
			return tuple{b, iface{}}
		},
		"strconv.Unquote": func(p *Path, fr *frame, a []value) value {
			s, err := strconv.Unquote(a[0].(string))
			if err != nil {
				return tuple{"", p.hostError(err.Error())}
			}
			return tuple{s, iface{}}
		},
		"net/url.QueryUnescape": func(p *Path, fr *frame, a []value) value {
			// host semantics on a concrete string; only used for package names
			s := a[0].(string)
			if !strings.ContainsAny(s, "%+") {
				return tuple{s, iface{}}
			}
			return tuple{"", p.hostError("unsupported escape in model of url.QueryUnescape")}
		},
		// ---- math/rand (S7: identity permutation)
		"math/rand.NewSource": func(p *Path, fr *frame, a []value) value {
			return iface{hostErrType, &hostObj{kind: "randsrc"}}
		},
		"math/rand.New": func(p *Path, fr *frame, a []value) value {
			cell := value(&hostObj{kind: "rand"})
			return &cell
		},
		"(*math/rand.Rand).Perm": func(p *Path, fr *frame, a []value) value {
			n := p.concInt(a[1], "Perm")
			r := make([]value, n)
			for i := range r {
				r[i] = i
			}
			return r
		},
		// ---- time (S8)
		"time.Now": func(p *Path, fr *frame, a []value) value {
			return zero(p.P.Prog.ImportedPackage("time").Type("Time").Type())
		},
		"time.Since":            func(p *Path, fr *frame, a []value) value { return int64(0) },
		"(time.Time).UnixNano":  func(p *Path, fr *frame, a []value) value { return a[0].(structure)[1] },
		"(time.Time).Sub":       func(p *Path, fr *frame, a []value) value { return p.binop(token.SUB, nil, a[0].(structure)[1], a[1].(structure)[1]) },
		"time.Unix": func(p *Path, fr *frame, a []value) value {
			// model: Time{wall:0, ext:nsec, loc:nil}; only (0, nsec) is supported
			t := zero(p.P.Prog.ImportedPackage("time").Type("Time").Type()).(structure)
			if asInt64(a[0]) != 0 {
				panic(engineError{"time.Unix with non-zero seconds not modelled"})
			}
			t[1] = a[1]
			return t
		},
		// ---- runtime (S9)
		"runtime.FuncForPC": func(p *Path, fr *frame, a []value) value {
			pc := uint64(asInt64(a[0]))
			if pc == pcMakeFuncStub {
				cell := value(&hostObj{kind: "rtfunc", data: "reflect.makeFuncStub"})
				return &cell
			}
			f := p.P.funcForPC(pc)
			if f == nil {
				return (*value)(nil)
			}
			cell := value(&hostObj{kind: "rtfunc", data: f})
			return &cell
		},
		"(*runtime.Func).Name": func(p *Path, fr *frame, a []value) value {
			c := a[0].(*value)
			if c == nil {
				return ""
			}
			switch d := (*c).(*hostObj).data.(type) {
			case string:
				return d
			case *ssa.Function:
				return rtFuncName(d)
			}
			return ""
		},
		"(*runtime.Func).FileLine": func(p *Path, fr *frame, a []value) value {
			c := a[0].(*value)
			if c == nil {
				return tuple{"", 0}
			}
			switch d := (*c).(*hostObj).data.(type) {
			case string:
				return tuple{"/usr/local/go/src/reflect/asm_amd64.s", 0}
			case *ssa.Function:
				pos := d.Prog.Fset.Position(d.Pos())
				return tuple{pos.Filename, pos.Line}
			}
			return tuple{"", 0}
		},
		"(reflect.Kind).String": func(p *Path, fr *frame, a []value) value { return reflect.Kind(asInt64(a[0])).String() },
		"runtime.Callers": func(p *Path, fr *frame, a []value) value { return 0 },
		"runtime.KeepAlive": func(p *Path, fr *frame, a []value) value { return nil },
	} {
		externals[k] = v
	}
}

// noSSAPkgs lists packages whose functions must never be executed from SSA
// (their semantics are provided only by intrinsics).
var noSSAPkgs = map[string]bool{
	"reflect": true, "internal/reflectlite": true, "runtime": true, "sync": true, "sync/atomic": true,
	"os": true, "syscall": true, "unsafe": true, "fmt": true, "internal/abi": true, "time": true,
	"math/rand": true, "internal/bytealg": true, "internal/poll": true, "runtime/debug": true,
}

var ssaAllowed = map[string]bool{
	"(reflect.StructTag).Get":    true,
	"(reflect.StructTag).Lookup": true,
}

func checkSSAAllowed(fn *ssa.Function) {
	if fn.Pkg != nil && noSSAPkgs[fn.Pkg.Pkg.Path()] {
		// errorString methods of package runtime are pure and needed for
		// panics raised by the engine
		if fn.Pkg.Pkg.Path() == "runtime" && strings.Contains(fn.String(), "errorString") {
			return
		}
		if ssaAllowed[fn.String()] {
			return
		}
		panic(engineError{fmt.Sprintf("no model for external function %s", fn)})
	}
}
