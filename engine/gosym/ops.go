package gosym

import (
	"fmt"
	"go/constant"
	"go/token"
	"go/types"
	"math"
	"strings"
	"unicode/utf8"
	"unsafe"

	"golang.org/x/tools/go/ssa"
)

// ---- control-flow exceptions of the engine ------------------------------------

// targetPanic is a panic of the interpreted program.
type targetPanic struct{ v value }

// pathAbort ends the current path silently (failed assumption, infeasible).
type pathAbort struct{ reason string }

// engineError means the engine met something it does not support; the run
// is inconclusive.
type engineError struct{ msg string }

// fuelExhausted is raised when an unwinding bound is exceeded.
type fuelExhausted struct{ kind string }

func constValue(c *ssa.Const) value {
	if c.Value == nil {
		return zero(c.Type())
	}
	if k, ok := basicKindOf(c.Type()); ok {
		switch k {
		case types.Bool:
			return constant.BoolVal(c.Value)
		case types.Float32:
			return float32(c.Float64())
		case types.Float64:
			return c.Float64()
		case types.Complex64:
			return complex64(c.Complex128())
		case types.Complex128:
			return c.Complex128()
		case types.String:
			if c.Value.Kind() == constant.String {
				return constant.StringVal(c.Value)
			}
			return string(rune(c.Int64()))
		case types.Uint, types.Uint8, types.Uint16, types.Uint32, types.Uint64, types.Uintptr:
			return mkInt(k, c.Uint64())
		case types.Int, types.Int8, types.Int16, types.Int32, types.Int64:
			return mkInt(k, uint64(c.Int64()))
		}
	}
	panic(engineError{fmt.Sprintf("constValue: %s", c)})
}

// ---- symbolic lifting -----------------------------------------------------------

// termOf lifts a concrete or symbolic scalar to a term.
func (p *Path) termOf(x value) (*Term, types.BasicKind, bool) {
	switch x := x.(type) {
	case *Sym:
		return x.t, x.k, true
	case bool:
		return p.ts.Bool(x), types.Bool, true
	}
	if k, b, ok := intBits(x); ok {
		return p.ts.Const(b, kindWidth(k)), k, true
	}
	return nil, 0, false
}

// symOrConst wraps a term as a value of kind k, folding constants back to
// concrete Go values.
func (p *Path) symOrConst(t *Term, k types.BasicKind) value {
	if t.IsConst() {
		if k == types.Bool {
			return t.val != 0
		}
		return mkInt(k, t.val)
	}
	return &Sym{k: k, t: t}
}

func isSym(x value) bool { _, ok := x.(*Sym); return ok }

func (p *Path) symBinop(op token.Token, x, y value) value {
	tx, kx, okx := p.termOf(x)
	ty, ky, oky := p.termOf(y)
	if !okx || !oky {
		panic(engineError{fmt.Sprintf("symbolic binop %s on %T, %T", op, x, y)})
	}
	ts := p.ts
	k := kx
	if kx == types.Bool {
		switch op {
		case token.EQL:
			return p.symOrConst(ts.Eq(tx, ty), types.Bool)
		case token.NEQ:
			return p.symOrConst(ts.Not(ts.Eq(tx, ty)), types.Bool)
		case token.LAND, token.AND:
			return p.symOrConst(ts.And(tx, ty), types.Bool)
		case token.LOR, token.OR:
			return p.symOrConst(ts.Or(tx, ty), types.Bool)
		}
		panic(engineError{"symbolic bool binop " + op.String()})
	}
	signed := kindSigned(k)
	switch op {
	case token.SHL, token.SHR:
		// shift count may have a different type: resize to operand width
		// (counts >= width are handled by SMT semantics: result 0 for shl/lshr,
		// sign fill for ashr, as in Go)
		ty = ts.Resize(ty, tx.w, false)
		if ty.w < 64 && kindWidth(ky) > tx.w {
			// a huge count truncated could look small; saturate
			full, _, _ := p.termOf(y)
			big := ts.Bin(OpULe, ts.Const(uint64(tx.w), full.w), full)
			ty = ts.Ite(big, ts.Const(uint64(tx.w), tx.w), ty)
		}
		if op == token.SHL {
			return p.symOrConst(ts.Bin(OpShl, tx, ty), k)
		}
		if signed {
			return p.symOrConst(ts.Bin(OpAShr, tx, ty), k)
		}
		return p.symOrConst(ts.Bin(OpLShr, tx, ty), k)
	}
	if tx.w != ty.w {
		panic(engineError{fmt.Sprintf("symbolic binop %s width mismatch %d/%d", op, tx.w, ty.w)})
	}
	var o Op
	switch op {
	case token.ADD:
		o = OpAdd
	case token.SUB:
		o = OpSub
	case token.MUL:
		o = OpMul
	case token.QUO, token.REM:
		// division by zero is a run-time panic
		if p.decide(ts.Eq(ty, ts.Const(0, ty.w)), "div-by-zero") {
			panic(p.runtimePanic("integer divide by zero"))
		}
		if op == token.QUO {
			o = OpUDiv
			if signed {
				o = OpSDiv
			}
		} else {
			o = OpURem
			if signed {
				o = OpSRem
			}
		}
	case token.AND:
		o = OpBAnd
	case token.OR:
		o = OpBOr
	case token.XOR:
		o = OpBXor
	case token.AND_NOT:
		return p.symOrConst(ts.Bin(OpBAnd, tx, ts.Un(OpBNot, ty)), k)
	case token.EQL:
		return p.symOrConst(ts.Eq(tx, ty), types.Bool)
	case token.NEQ:
		return p.symOrConst(ts.Not(ts.Eq(tx, ty)), types.Bool)
	case token.LSS:
		if signed {
			return p.symOrConst(ts.Bin(OpSLt, tx, ty), types.Bool)
		}
		return p.symOrConst(ts.Bin(OpULt, tx, ty), types.Bool)
	case token.LEQ:
		if signed {
			return p.symOrConst(ts.Bin(OpSLe, tx, ty), types.Bool)
		}
		return p.symOrConst(ts.Bin(OpULe, tx, ty), types.Bool)
	case token.GTR:
		if signed {
			return p.symOrConst(ts.Bin(OpSLt, ty, tx), types.Bool)
		}
		return p.symOrConst(ts.Bin(OpULt, ty, tx), types.Bool)
	case token.GEQ:
		if signed {
			return p.symOrConst(ts.Bin(OpSLe, ty, tx), types.Bool)
		}
		return p.symOrConst(ts.Bin(OpULe, ty, tx), types.Bool)
	default:
		panic(engineError{"symbolic binop " + op.String()})
	}
	return p.symOrConst(ts.Bin(o, tx, ty), k)
}

// ---- concrete arithmetic --------------------------------------------------------

func (p *Path) binop(op token.Token, t types.Type, x, y value) value {
	if isSym(x) || isSym(y) {
		return p.symBinop(op, x, y)
	}
	switch op {
	case token.EQL:
		return p.boolOf(p.equals(t, x, y))
	case token.NEQ:
		return p.boolOf(p.ts.Not(p.equals(t, x, y)))
	}
	if kx, bx, ok := intBits(x); ok {
		w := kindWidth(kx)
		signed := kindSigned(kx)
		ky, by, oky := intBits(y)
		if !oky {
			panic(engineError{fmt.Sprintf("binop %s: %T vs %T", op, x, y)})
		}
		sx := sext(bx, w)
		ux := bx & mask(w)
		switch op {
		case token.SHL, token.SHR:
			cnt := by & mask(kindWidth(ky))
			if kindSigned(ky) {
				if s := sext(by, kindWidth(ky)); s < 0 {
					panic(p.runtimePanic("negative shift amount"))
				}
			}
			if op == token.SHL {
				if cnt >= 64 {
					return mkInt(kx, 0)
				}
				return mkInt(kx, ux<<cnt)
			}
			if signed {
				if cnt >= 64 {
					cnt = 63
				}
				return mkInt(kx, uint64(sx>>cnt))
			}
			if cnt >= 64 {
				return mkInt(kx, 0)
			}
			return mkInt(kx, ux>>cnt)
		}
		sy := sext(by, w)
		uy := by & mask(w)
		switch op {
		case token.ADD:
			return mkInt(kx, bx+by)
		case token.SUB:
			return mkInt(kx, bx-by)
		case token.MUL:
			return mkInt(kx, bx*by)
		case token.QUO:
			if uy == 0 {
				panic(p.runtimePanic("integer divide by zero"))
			}
			if signed {
				if sy == -1 {
					return mkInt(kx, uint64(-sx))
				}
				return mkInt(kx, uint64(sx/sy))
			}
			return mkInt(kx, ux/uy)
		case token.REM:
			if uy == 0 {
				panic(p.runtimePanic("integer divide by zero"))
			}
			if signed {
				if sy == -1 {
					return mkInt(kx, 0)
				}
				return mkInt(kx, uint64(sx%sy))
			}
			return mkInt(kx, ux%uy)
		case token.AND:
			return mkInt(kx, bx&by)
		case token.OR:
			return mkInt(kx, bx|by)
		case token.XOR:
			return mkInt(kx, bx^by)
		case token.AND_NOT:
			return mkInt(kx, bx&^by)
		case token.LSS:
			if signed {
				return sx < sy
			}
			return ux < uy
		case token.LEQ:
			if signed {
				return sx <= sy
			}
			return ux <= uy
		case token.GTR:
			if signed {
				return sx > sy
			}
			return ux > uy
		case token.GEQ:
			if signed {
				return sx >= sy
			}
			return ux >= uy
		}
	}
	switch x := x.(type) {
	case string:
		y := y.(string)
		switch op {
		case token.ADD:
			return x + y
		case token.LSS:
			return x < y
		case token.LEQ:
			return x <= y
		case token.GTR:
			return x > y
		case token.GEQ:
			return x >= y
		}
	case float64:
		y := y.(float64)
		switch op {
		case token.ADD:
			return x + y
		case token.SUB:
			return x - y
		case token.MUL:
			return x * y
		case token.QUO:
			return x / y
		case token.LSS:
			return x < y
		case token.LEQ:
			return x <= y
		case token.GTR:
			return x > y
		case token.GEQ:
			return x >= y
		}
	case float32:
		y := y.(float32)
		switch op {
		case token.ADD:
			return x + y
		case token.SUB:
			return x - y
		case token.MUL:
			return x * y
		case token.QUO:
			return x / y
		case token.LSS:
			return x < y
		case token.LEQ:
			return x <= y
		case token.GTR:
			return x > y
		case token.GEQ:
			return x >= y
		}
	case bool:
		y := y.(bool)
		switch op {
		case token.AND, token.LAND:
			return x && y
		case token.OR, token.LOR:
			return x || y
		}
	}
	panic(engineError{fmt.Sprintf("invalid binary op: %T %s %T", x, op, y)})
}

// boolOf folds a Bool term to a value.
func (p *Path) boolOf(t *Term) value { return p.symOrConst(t, types.Bool) }

func (p *Path) unop(instr *ssa.UnOp, x value) value {
	switch instr.Op {
	case token.ARROW:
		panic(engineError{"channel receive"})
	case token.SUB:
		if s, ok := x.(*Sym); ok {
			return p.symOrConst(p.ts.Un(OpNeg, s.t), s.k)
		}
		if k, b, ok := intBits(x); ok {
			return mkInt(k, -b)
		}
		switch x := x.(type) {
		case float32:
			return -x
		case float64:
			return -x
		}
	case token.MUL:
		ptr := x.(*value)
		if ptr == nil {
			panic(p.runtimePanic("invalid memory address or nil pointer dereference"))
		}
		return load(ptr)
	case token.NOT:
		if s, ok := x.(*Sym); ok {
			return p.symOrConst(p.ts.Not(s.t), types.Bool)
		}
		return !x.(bool)
	case token.XOR:
		if s, ok := x.(*Sym); ok {
			return p.symOrConst(p.ts.Un(OpBNot, s.t), s.k)
		}
		if k, b, ok := intBits(x); ok {
			return mkInt(k, ^b)
		}
	}
	panic(engineError{fmt.Sprintf("invalid unary op %s %T", instr.Op, x)})
}

// ---- equality ---------------------------------------------------------------------

func isBlank(f *types.Var) bool { return f.Name() == "_" }

// equals returns the Bool term "x == y" for two values of static type t.
func (p *Path) equals(t types.Type, x, y value) *Term {
	ts := p.ts
	if isSym(x) || isSym(y) {
		t, _, _ := p.termOf(p.symBinop(token.EQL, x, y))
		return t
	}
	switch x := x.(type) {
	case bool:
		return ts.Bool(x == y.(bool))
	case string:
		return ts.Bool(x == y.(string))
	case float32:
		return ts.Bool(x == y.(float32))
	case float64:
		return ts.Bool(x == y.(float64))
	case complex64:
		return ts.Bool(x == y.(complex64))
	case complex128:
		return ts.Bool(x == y.(complex128))
	case unsafe.Pointer:
		return ts.Bool(x == y.(unsafe.Pointer))
	case *value:
		return ts.Bool(x == y.(*value))
	case *mapv:
		ym, _ := y.(*mapv)
		return ts.Bool(x == nil && ym == nil) // maps compare only to nil
	case *chanv:
		return ts.Bool(x == y.(*chanv))
	case structure:
		y := y.(structure)
		st := t.Underlying().(*types.Struct)
		r := ts.T
		for i, n := 0, st.NumFields(); i < n; i++ {
			if f := st.Field(i); !isBlank(f) {
				r = ts.And(r, p.equals(f.Type(), x[i], y[i]))
				if r.IsFalse() {
					return r
				}
			}
		}
		return r
	case array:
		y := y.(array)
		et := t.Underlying().(*types.Array).Elem()
		r := ts.T
		for i := range x {
			r = ts.And(r, p.equals(et, x[i], y[i]))
			if r.IsFalse() {
				return r
			}
		}
		return r
	case iface:
		y := y.(iface)
		if x.t == nil || y.t == nil {
			return ts.Bool(x.t == nil && y.t == nil)
		}
		te := p.typeEq(x.t, y.t)
		if te.IsFalse() {
			return te
		}
		if !types.Comparable(x.t) {
			if te.IsTrue() {
				panic(p.runtimePanic("comparing uncomparable type " + x.t.String()))
			}
			return ts.F
		}
		if te.IsTrue() {
			return p.equals(x.t, x.v, y.v)
		}
		// Types equal only under a condition; values of symbolic types are
		// pointers, so compare payloads structurally.
		return ts.And(te, p.equals(x.t, x.v, y.v))
	case rtype:
		return p.typeEq(x.t, y.(rtype).t)
	case *ssa.Function, *closure, *makeFunc, []value:
		// only comparable to nil
		return ts.Bool(isNilValue(x) && isNilValue(y))
	case *hostObj:
		yo, _ := y.(*hostObj)
		return ts.Bool(x == yo)
	}
	if kx, bx, ok := intBits(x); ok {
		_, by, ok2 := intBits(y)
		if !ok2 {
			panic(engineError{fmt.Sprintf("equals: %T vs %T", x, y)})
		}
		return ts.Bool(bx&mask(kindWidth(kx)) == by&mask(kindWidth(kx)))
	}
	if x == nil && y == nil {
		return ts.T
	}
	panic(engineError{fmt.Sprintf("comparing uncomparable %T (static type %v)", x, t)})
}

func isNilValue(v value) bool {
	switch v := v.(type) {
	case nil:
		return true
	case *ssa.Function:
		return v == nil
	case *closure:
		return v == nil
	case *makeFunc:
		return v == nil
	case []value:
		return v == nil
	case *value:
		return v == nil
	case *mapv:
		return v == nil
	case *chanv:
		return v == nil
	case iface:
		return v.t == nil
	case unsafe.Pointer:
		return v == nil
	}
	return false
}

// ---- conversions -------------------------------------------------------------------

func (p *Path) conv(tdst, tsrc types.Type, x value) value {
	ut_src := tsrc.Underlying()
	ut_dst := tdst.Underlying()

	switch ut_dst.(type) {
	case *types.Signature, *types.Pointer, *types.Struct, *types.Array, *types.Map, *types.Chan, *types.Interface:
		if _, ok := ut_src.(*types.Basic); ok {
			if up, ok := x.(unsafe.Pointer); ok && up == nil {
				return zero(tdst)
			}
			panic(engineError{fmt.Sprintf("unsafe conversion %v -> %v", tsrc, tdst)})
		}
		return x
	case *types.Slice:
		switch ut_src.(type) {
		case *types.Slice:
			return x
		}
	}
	if s, ok := x.(*Sym); ok {
		kd, okd := basicKindOf(tdst)
		if !okd {
			panic(engineError{fmt.Sprintf("conv of symbolic to %v", tdst)})
		}
		if kd == types.Bool {
			return s
		}
		if kd == types.String || kd == types.Float32 || kd == types.Float64 {
			// need a concrete value
			c := p.concretise(s, "conv")
			return p.conv(tdst, tsrc, c)
		}
		return p.symOrConst(p.ts.Resize(s.t, kindWidth(kd), kindSigned(s.k)), kd)
	}

	// string <-> []byte / []rune
	if ds, ok := ut_dst.(*types.Slice); ok {
		if str, ok := x.(string); ok {
			ek, _ := basicKindOf(ds.Elem())
			switch ek {
			case types.Uint8:
				res := make([]value, len(str))
				for i := 0; i < len(str); i++ {
					res[i] = str[i]
				}
				return res
			case types.Int32:
				var res []value
				for _, r := range str {
					res = append(res, r)
				}
				if res == nil {
					res = []value{}
				}
				return res
			}
		}
	}
	if kd, ok := basicKindOf(tdst); ok {
		if kd == types.String {
			switch x := x.(type) {
			case string:
				return x
			case []value:
				if ss, ok := ut_src.(*types.Slice); ok {
					ek, _ := basicKindOf(ss.Elem())
					if ek == types.Uint8 {
						b := make([]byte, len(x))
						for i, e := range x {
							b[i] = p.concByte(e)
						}
						return string(b)
					}
					if ek == types.Int32 {
						var sb strings.Builder
						for _, e := range x {
							sb.WriteRune(e.(int32))
						}
						return sb.String()
					}
				}
			}
			if _, b, ok := intBits(x); ok {
				r := rune(b)
				if int64(b) > utf8.MaxRune {
					r = utf8.RuneError
				}
				return string(r)
			}
		}
		if kd == types.UnsafePointer {
			if up, ok := x.(unsafe.Pointer); ok {
				return up
			}
			if pv, ok := x.(*value); ok {
				return unsafe.Pointer(pv)
			}
			if _, b, ok := intBits(x); ok && b == 0 {
				return unsafe.Pointer(nil)
			}
			panic(engineError{fmt.Sprintf("conv to unsafe.Pointer from %T", x)})
		}
		// numeric
		if ks, b, ok := intBits(x); ok {
			w := kindWidth(ks)
			switch kd {
			case types.Float32:
				if kindSigned(ks) {
					return float32(sext(b, w))
				}
				return float32(b & mask(w))
			case types.Float64:
				if kindSigned(ks) {
					return float64(sext(b, w))
				}
				return float64(b & mask(w))
			case types.Bool, types.String:
			default:
				if kindSigned(ks) {
					return mkInt(kd, uint64(sext(b, w)))
				}
				return mkInt(kd, b&mask(w))
			}
		}
		switch x := x.(type) {
		case float64:
			switch kd {
			case types.Float32:
				return float32(x)
			case types.Float64:
				return x
			default:
				if kindSigned(kd) {
					return mkInt(kd, uint64(int64(x)))
				}
				return mkInt(kd, uint64(x))
			}
		case float32:
			switch kd {
			case types.Float32:
				return x
			case types.Float64:
				return float64(x)
			default:
				if kindSigned(kd) {
					return mkInt(kd, uint64(int64(x)))
				}
				return mkInt(kd, uint64(x))
			}
		case bool:
			return x
		case unsafe.Pointer:
			if kd == types.Uintptr {
				return uintptr(x)
			}
		}
	}
	panic(engineError{fmt.Sprintf("unsupported conversion: %v (%T) -> %v", tsrc, x, tdst)})
}

// concByte turns a byte value (possibly symbolic) into a concrete byte.
func (p *Path) concByte(e value) byte {
	if s, ok := e.(*Sym); ok {
		return p.concretise(s, "byte").(uint8)
	}
	return e.(uint8)
}

var _ = math.Inf
