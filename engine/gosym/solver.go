package gosym

import (
	"bufio"
	"fmt"
	"io"
	"os/exec"
	"strconv"
	"strings"
	"time"
)

// Result of a satisfiability query.
type SatResult int

const (
	Unsat SatResult = iota
	Sat
	Unknown
)

func (r SatResult) String() string { return [...]string{"unsat", "sat", "unknown"}[r] }

// Solver wraps one live SMT solver process speaking SMT-LIB2 on stdin/stdout.
type Solver struct {
	name string
	cmd  *exec.Cmd
	in   io.WriteCloser
	out  *bufio.Reader

	emitted map[int]bool // term ids defined in the current context
	vars    []*Term      // declared variables, in order

	// statistics
	Queries   int
	SatN      int
	UnsatN    int
	UnknownN  int
	Errors    int
	Wall      time.Duration
	MaxQuery  time.Duration
	LastError string
	Log       io.Writer // optional transcript
}

// SolverArgv returns the command line for a supported back end.
func SolverArgv(name string, timeoutMs int) []string {
	switch name {
	case "z3":
		return []string{"z3", "-in", fmt.Sprintf("-t:%d", timeoutMs)}
	case "z3-new":
		return []string{"z3-new", "-in", fmt.Sprintf("-t:%d", timeoutMs)}
	case "cvc5":
		return []string{"cvc5", "--incremental", "--lang=smt2", "--produce-models", fmt.Sprintf("--tlimit-per=%d", timeoutMs)}
	}
	panic("unknown solver " + name)
}

func NewSolver(name string, timeoutMs int) (*Solver, error) {
	argv := SolverArgv(name, timeoutMs)
	cmd := exec.Command(argv[0], argv[1:]...)
	in, err := cmd.StdinPipe()
	if err != nil {
		return nil, err
	}
	out, err := cmd.StdoutPipe()
	if err != nil {
		return nil, err
	}
	cmd.Stderr = nil
	if err := cmd.Start(); err != nil {
		return nil, err
	}
	s := &Solver{name: name, cmd: cmd, in: in, out: bufio.NewReaderSize(out, 1<<16)}
	s.Reset()
	return s, nil
}

func (s *Solver) Close() {
	if s == nil || s.cmd == nil {
		return
	}
	s.in.Close()
	s.cmd.Process.Kill()
	s.cmd.Wait()
	s.cmd = nil
}

func (s *Solver) send(str string) {
	if s.Log != nil {
		io.WriteString(s.Log, str)
	}
	io.WriteString(s.in, str)
}

// Reset discards all assertions and definitions (start of a new path).
func (s *Solver) Reset() {
	s.send("(reset)\n(set-option :produce-models true)\n")
	s.emitted = make(map[int]bool)
	s.vars = s.vars[:0]
}

// define emits declarations/definitions for t and everything below it.
func (s *Solver) define(t *Term, sb *strings.Builder) {
	if t.op == OpConst || s.emitted[t.id] {
		return
	}
	s.emitted[t.id] = true
	if t.op == OpVar {
		fmt.Fprintf(sb, "(declare-const %s %s)\n", t.name, sortStr(t.w))
		s.vars = append(s.vars, t)
		return
	}
	for _, x := range []*Term{t.a, t.b, t.c} {
		if x != nil {
			s.define(x, sb)
		}
	}
	fmt.Fprintf(sb, "(define-fun t%d () %s %s)\n", t.id, sortStr(t.w), t.body())
}

// Assert adds t permanently to the context.
func (s *Solver) Assert(t *Term) {
	var sb strings.Builder
	s.define(t, &sb)
	fmt.Fprintf(&sb, "(assert %s)\n", t.ref())
	s.send(sb.String())
}

// Check asks whether the context together with extra (may be nil) is
// satisfiable.  The context itself is left unchanged.
func (s *Solver) Check(extra *Term) SatResult {
	var sb strings.Builder
	if extra != nil {
		s.define(extra, &sb)
		fmt.Fprintf(&sb, "(push 1)\n(assert %s)\n(check-sat)\n(pop 1)\n", extra.ref())
	} else {
		sb.WriteString("(check-sat)\n")
	}
	start := time.Now()
	s.send(sb.String())
	r := s.readVerdict()
	d := time.Since(start)
	s.Wall += d
	if d > s.MaxQuery {
		s.MaxQuery = d
	}
	s.Queries++
	switch r {
	case Sat:
		s.SatN++
	case Unsat:
		s.UnsatN++
	default:
		s.UnknownN++
	}
	return r
}

func (s *Solver) readLine() (string, error) {
	line, err := s.out.ReadString('\n')
	if s.Log != nil {
		io.WriteString(s.Log, "; <- "+line)
	}
	return strings.TrimSpace(line), err
}

func (s *Solver) readVerdict() SatResult {
	for {
		line, err := s.readLine()
		if err != nil {
			s.Errors++
			s.LastError = "solver died: " + err.Error()
			return Unknown
		}
		switch {
		case line == "sat":
			return Sat
		case line == "unsat":
			return Unsat
		case line == "unknown" || line == "timeout":
			return Unknown
		case strings.HasPrefix(line, "(error"):
			s.Errors++
			s.LastError = line
			// keep reading: the verdict line still follows for z3, but the
			// answer is not to be trusted.
			s.drainVerdict()
			return Unknown
		case line == "":
			continue
		}
	}
}

func (s *Solver) drainVerdict() {
	// after an (error ...) line z3 still prints a verdict for the pending
	// check-sat; consume it so the stream stays in sync.
	for i := 0; i < 4; i++ {
		line, err := s.readLine()
		if err != nil || line == "sat" || line == "unsat" || line == "unknown" {
			return
		}
	}
}

// Model asserts extra, checks, and on sat returns values for all declared
// variables.  The context is left unchanged.
func (s *Solver) Model(extra *Term) (SatResult, map[string]uint64) {
	var sb strings.Builder
	if extra != nil {
		s.define(extra, &sb)
	}
	sb.WriteString("(push 1)\n")
	if extra != nil {
		fmt.Fprintf(&sb, "(assert %s)\n", extra.ref())
	}
	sb.WriteString("(check-sat)\n")
	start := time.Now()
	s.send(sb.String())
	r := s.readVerdict()
	s.Wall += time.Since(start)
	s.Queries++
	var m map[string]uint64
	if r == Sat {
		s.SatN++
		m = make(map[string]uint64)
		if len(s.vars) > 0 {
			var q strings.Builder
			q.WriteString("(get-value (")
			for _, v := range s.vars {
				q.WriteString(v.name)
				q.WriteByte(' ')
			}
			q.WriteString("))\n")
			s.send(q.String())
			txt := s.readSexp()
			parseModel(txt, m)
		}
	} else if r == Unsat {
		s.UnsatN++
	} else {
		s.UnknownN++
	}
	s.send("(pop 1)\n")
	return r, m
}

// readSexp reads one balanced s-expression from the solver.
func (s *Solver) readSexp() string {
	var sb strings.Builder
	depth, started := 0, false
	for {
		line, err := s.out.ReadString('\n')
		if err != nil {
			return sb.String()
		}
		sb.WriteString(line)
		for _, c := range line {
			if c == '(' {
				depth++
				started = true
			} else if c == ')' {
				depth--
			}
		}
		if started && depth <= 0 {
			return sb.String()
		}
	}
}

func parseModel(txt string, m map[string]uint64) {
	// ((name #x0012) (name2 true) (name3 (_ bv5 64)))
	toks := tokenize(txt)
	for i := 0; i+1 < len(toks); i++ {
		if toks[i] == "(" && i+2 < len(toks) && toks[i+1] != "(" && toks[i+1] != ")" {
			name := toks[i+1]
			val := toks[i+2]
			switch {
			case val == "true":
				m[name] = 1
			case val == "false":
				m[name] = 0
			case strings.HasPrefix(val, "#x"):
				v, _ := strconv.ParseUint(val[2:], 16, 64)
				m[name] = v
			case strings.HasPrefix(val, "#b"):
				v, _ := strconv.ParseUint(val[2:], 2, 64)
				m[name] = v
			case val == "(" && i+4 < len(toks) && toks[i+3] == "_" && strings.HasPrefix(toks[i+4], "bv"):
				v, _ := strconv.ParseUint(toks[i+4][2:], 10, 64)
				m[name] = v
			}
		}
	}
}

func tokenize(s string) []string {
	var toks []string
	cur := ""
	flush := func() {
		if cur != "" {
			toks = append(toks, cur)
			cur = ""
		}
	}
	for _, c := range s {
		switch c {
		case '(', ')':
			flush()
			toks = append(toks, string(c))
		case ' ', '\n', '\t', '\r':
			flush()
		default:
			cur += string(c)
		}
	}
	flush()
	return toks
}

// Enumerate lists the feasible values of bit-vector term t under the current
// context, up to max values.  complete is false if there are more.
func (s *Solver) Enumerate(t *Term, max int) (vals []uint64, complete bool) {
	var sb strings.Builder
	s.define(t, &sb)
	sb.WriteString("(push 1)\n")
	s.send(sb.String())
	defer s.send("(pop 1)\n")
	for {
		start := time.Now()
		s.send("(check-sat)\n")
		r := s.readVerdict()
		s.Wall += time.Since(start)
		s.Queries++
		if r == Unsat {
			s.UnsatN++
			return vals, true
		}
		if r == Unknown {
			s.UnknownN++
			return vals, false
		}
		s.SatN++
		if len(vals) >= max {
			return vals, false
		}
		s.send(fmt.Sprintf("(get-value (%s))\n", t.ref()))
		txt := s.readSexp()
		toks := tokenize(txt)
		// ((ref value))
		var v uint64
		found := false
		for i := len(toks) - 1; i >= 0; i-- {
			tk := toks[i]
			if strings.HasPrefix(tk, "#x") {
				v, _ = strconv.ParseUint(tk[2:], 16, 64)
				found = true
				break
			}
			if strings.HasPrefix(tk, "#b") {
				v, _ = strconv.ParseUint(tk[2:], 2, 64)
				found = true
				break
			}
			if strings.HasPrefix(tk, "bv") && i > 0 && toks[i-1] == "_" {
				v, _ = strconv.ParseUint(tk[2:], 10, 64)
				found = true
				break
			}
		}
		if !found {
			s.Errors++
			s.LastError = "cannot parse get-value: " + txt
			return vals, false
		}
		vals = append(vals, v)
		s.send(fmt.Sprintf("(assert (not (= %s %s)))\n", t.ref(), constStr(v, t.w)))
	}
}
