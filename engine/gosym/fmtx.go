package gosym

import (
	"fmt"
	"go/token"
	"go/types"
	"reflect"
	"strconv"
	"strings"

	"golang.org/x/tools/go/ssa"
)

// Model of package fmt (stub S3): a small re-implementation of the print
// verbs dig uses.  Operands with Format / Error / String methods are
// formatted by executing those methods from their SSA.

type fmtSt struct {
	buf   strings.Builder
	plus  bool
	sharp bool
	minus bool
	zero  bool
	space bool
	wid   int
	prec  int
	hasW  bool
	hasP  bool
}

func (p *Path) callFmtStateMethod(name string, args []value) value {
	st := args[0].(*hostObj).data.(*fmtSt)
	switch name {
	case "Write":
		b, _ := args[1].([]value)
		for _, e := range b {
			st.buf.WriteByte(p.concByte(e))
		}
		return tuple{len(b), iface{}}
	case "WriteString":
		s := args[1].(string)
		st.buf.WriteString(s)
		return tuple{len(s), iface{}}
	case "Width":
		return tuple{st.wid, st.hasW}
	case "Precision":
		return tuple{st.prec, st.hasP}
	case "Flag":
		switch asInt(args[1]) {
		case '+':
			return st.plus
		case '#':
			return st.sharp
		case '-':
			return st.minus
		case '0':
			return st.zero
		case ' ':
			return st.space
		}
		return false
	}
	panic(engineError{"fmt.State method " + name})
}

func (p *Path) findMethod(t types.Type, name string) *ssa.Function {
	if t == rtypeType || t == fmtStateType || t == hostErrType {
		return nil
	}
	ms := p.P.Prog.MethodSets.MethodSet(t)
	for i := 0; i < ms.Len(); i++ {
		sel := ms.At(i)
		if sel.Obj().Name() == name {
			return p.P.Prog.MethodValue(sel)
		}
	}
	return nil
}

func sigIs(f *ssa.Function, nparams int, result string) bool {
	sig := f.Signature
	if sig.Params().Len() != nparams || sig.Results().Len() != 1 {
		return false
	}
	return sig.Results().At(0).Type().String() == result
}

// writeTo sends text to an io.Writer value of the target program.
func (p *Path) writeTo(fr *frame, w iface, s string) {
	if w.t == nil {
		panic(p.runtimePanic("invalid memory address or nil pointer dereference (nil io.Writer)"))
	}
	if w.t == fmtStateType {
		w.v.(*hostObj).data.(*fmtSt).buf.WriteString(s)
		return
	}
	m := p.findMethod(w.t, "Write")
	if m == nil {
		panic(engineError{"writeTo: no Write method on " + w.t.String()})
	}
	b := make([]value, len(s))
	for i := 0; i < len(s); i++ {
		b[i] = s[i]
	}
	p.call(fr, token.NoPos, m, []value{w.v, b})
}

func (p *Path) sprintf(fr *frame, format string, args []value) string {
	st := &fmtSt{}
	argi := 0
	for i := 0; i < len(format); {
		c := format[i]
		if c != '%' {
			st.buf.WriteByte(c)
			i++
			continue
		}
		i++
		if i >= len(format) {
			st.buf.WriteString("%!(NOVERB)")
			break
		}
		f := &fmtSt{}
		// flags
	flags:
		for i < len(format) {
			switch format[i] {
			case '+':
				f.plus = true
			case '#':
				f.sharp = true
			case '-':
				f.minus = true
			case '0':
				f.zero = true
			case ' ':
				f.space = true
			default:
				break flags
			}
			i++
		}
		for i < len(format) && format[i] >= '0' && format[i] <= '9' {
			f.wid = f.wid*10 + int(format[i]-'0')
			f.hasW = true
			i++
		}
		if i < len(format) && format[i] == '.' {
			i++
			f.hasP = true
			for i < len(format) && format[i] >= '0' && format[i] <= '9' {
				f.prec = f.prec*10 + int(format[i]-'0')
				i++
			}
		}
		if i >= len(format) {
			st.buf.WriteString("%!(NOVERB)")
			break
		}
		verb := rune(format[i])
		i++
		if verb == '%' {
			st.buf.WriteByte('%')
			continue
		}
		if argi >= len(args) {
			st.buf.WriteString("%!" + string(verb) + "(MISSING)")
			continue
		}
		arg := args[argi].(iface)
		argi++
		p.formatArg(fr, f, arg, verb, 0)
		s := f.buf.String()
		if f.hasW && len(s) < f.wid {
			pad := strings.Repeat(" ", f.wid-len(s))
			if f.zero && !f.minus {
				pad = strings.Repeat("0", f.wid-len(s))
			}
			if f.minus {
				s += pad
			} else {
				s = pad + s
			}
		}
		st.buf.WriteString(s)
	}
	if argi < len(args) {
		st.buf.WriteString("%!(EXTRA ")
		for j := argi; j < len(args); j++ {
			if j > argi {
				st.buf.WriteString(", ")
			}
			a := args[j].(iface)
			if a.t == nil {
				st.buf.WriteString("<nil>")
			} else {
				st.buf.WriteString(p.typeString(a.t) + "=")
				f := &fmtSt{}
				p.formatArg(fr, f, a, 'v', 0)
				st.buf.WriteString(f.buf.String())
			}
		}
		st.buf.WriteString(")")
	}
	return st.buf.String()
}

func (p *Path) sprint(fr *frame, args []value, ln bool) string {
	var sb strings.Builder
	prevString := false
	for i, a := range args {
		arg := a.(iface)
		_, isString := arg.v.(string)
		isString = isString && arg.t != nil && reflectKind(arg.t) == reflect.String
		if i > 0 && (ln || (!isString && !prevString)) {
			sb.WriteByte(' ')
		}
		f := &fmtSt{}
		p.formatArg(fr, f, arg, 'v', 0)
		sb.WriteString(f.buf.String())
		prevString = isString
	}
	if ln {
		sb.WriteByte('\n')
	}
	return sb.String()
}

func (p *Path) formatArg(fr *frame, f *fmtSt, arg iface, verb rune, depth int) {
	if arg.t == nil {
		switch verb {
		case 'T', 'v':
			f.buf.WriteString("<nil>")
		default:
			f.buf.WriteString("%!" + string(verb) + "(<nil>)")
		}
		return
	}
	switch verb {
	case 'T':
		f.buf.WriteString(p.typeString(arg.t))
		return
	case 'p':
		p.fmtPointer(f, arg)
		return
	}
	if p.handleMethods(fr, f, arg, verb) {
		return
	}
	p.printValue(fr, f, arg.t, arg.v, verb, depth)
}

func (p *Path) handleMethods(fr *frame, f *fmtSt, arg iface, verb rune) bool {
	if arg.t == rtypeType {
		if strings.ContainsRune("vsxXq", verb) {
			p.fmtString(f, p.typeString(arg.v.(rtype).t), verb)
			return true
		}
		return false
	}
	if arg.t == hostErrType {
		p.fmtString(f, arg.v.(*hostObj).data.(string), verb)
		return true
	}
	if arg.t == fmtStateType {
		return false
	}
	if m := p.findMethod(arg.t, "Format"); m != nil && m.Signature.Params().Len() == 2 && m.Signature.Results().Len() == 0 {
		stv := iface{fmtStateType, &hostObj{kind: "fmtState", data: f}}
		p.callCatchNilRecv(fr, f, arg, func() { p.call(fr, token.NoPos, m, []value{arg.v, stv, int32(verb)}) })
		return true
	}
	if strings.ContainsRune("vsxXq", verb) && !f.sharp {
		if m := p.findMethod(arg.t, "Error"); m != nil && sigIs(m, 0, "string") {
			p.callCatchNilRecv(fr, f, arg, func() {
				s := p.call(fr, token.NoPos, m, []value{arg.v}).(string)
				p.fmtString(f, s, verb)
			})
			return true
		}
		if m := p.findMethod(arg.t, "String"); m != nil && sigIs(m, 0, "string") {
			p.callCatchNilRecv(fr, f, arg, func() {
				s := p.call(fr, token.NoPos, m, []value{arg.v}).(string)
				p.fmtString(f, s, verb)
			})
			return true
		}
	}
	return false
}

// callCatchNilRecv mirrors fmt's catchPanic: a panic in a method called on a
// nil pointer receiver prints "<nil>", any other panic is re-raised by the
// real fmt as "%!v(PANIC=...)"; we print that marker too.
func (p *Path) callCatchNilRecv(fr *frame, f *fmtSt, arg iface, fn func()) {
	defer func() {
		if r := recover(); r != nil {
			tp, ok := r.(targetPanic)
			if !ok {
				panic(r)
			}
			if pv, ok := arg.v.(*value); ok && pv == nil {
				f.buf.WriteString("<nil>")
				return
			}
			f.buf.WriteString("%!v(PANIC=")
			if pi, ok := tp.v.(iface); ok {
				if s, ok := pi.v.(string); ok {
					f.buf.WriteString(s)
				}
			}
			f.buf.WriteString(")")
		}
	}()
	fn()
}

func (p *Path) fmtString(f *fmtSt, s string, verb rune) {
	switch verb {
	case 'q':
		f.buf.WriteString(strconv.Quote(s))
	case 'x':
		fmt.Fprintf(&f.buf, "%x", s)
	case 'X':
		fmt.Fprintf(&f.buf, "%X", s)
	default:
		f.buf.WriteString(s)
	}
}

func (p *Path) fmtPointer(f *fmtSt, arg iface) {
	var a uint64
	switch v := arg.v.(type) {
	case *value:
		a = p.fakePtr(v)
	case *ssa.Function, *closure, *makeFunc:
		a = p.funcPC(v)
	case []value:
		if cap(v) > 0 {
			a = p.fakePtr(&v[:1][0])
		}
	case *mapv:
		if v != nil {
			a = 0xc0ffee00
		}
	default:
		f.buf.WriteString("%!p(" + p.typeString(arg.t) + ")")
		return
	}
	fmt.Fprintf(&f.buf, "0x%x", a)
}

func (p *Path) fmtInt(f *fmtSt, k types.BasicKind, bits uint64, verb rune) {
	w := kindWidth(k)
	signed := kindSigned(k)
	var sv int64
	var uv uint64
	if signed {
		sv = sext(bits, w)
	} else {
		uv = bits & mask(w)
	}
	format := "%"
	if f.plus {
		format += "+"
	}
	if f.sharp {
		format += "#"
	}
	switch verb {
	case 'v':
		verb = 'd'
		if f.sharp && !signed {
			format = "%#"
			verb = 'x'
		}
	case 'd', 'x', 'X', 'o', 'b', 'c', 'q', 'U':
	default:
		f.buf.WriteString("%!" + string(verb) + "(" + types.Typ[k].Name() + "=")
		if signed {
			fmt.Fprintf(&f.buf, "%d)", sv)
		} else {
			fmt.Fprintf(&f.buf, "%d)", uv)
		}
		return
	}
	format += string(verb)
	if signed {
		fmt.Fprintf(&f.buf, format, sv)
	} else {
		fmt.Fprintf(&f.buf, format, uv)
	}
}

func (p *Path) printValue(fr *frame, f *fmtSt, t types.Type, v value, verb rune, depth int) {
	if depth > 8 {
		f.buf.WriteString("...")
		return
	}
	// reflect.Value operands print the value they hold
	if n, ok := types.Unalias(t).(*types.Named); ok && n == p.P.reflectValue {
		r := p.asRV(v)
		if !r.valid() {
			f.buf.WriteString("<invalid reflect.Value>")
			return
		}
		inner := iface{t: r.t, v: r.get()}
		if _, isI := r.t.Underlying().(*types.Interface); isI {
			inner = r.get().(iface)
			if inner.t == nil {
				f.buf.WriteString("<nil>")
				return
			}
		}
		if depth > 0 || r.flag&flagRO == 0 {
			if p.handleMethods(fr, f, inner, verb) {
				return
			}
		}
		p.printValue(fr, f, inner.t, inner.v, verb, depth+1)
		return
	}
	if s, ok := v.(*Sym); ok {
		_ = s
		f.buf.WriteString("?")
		return
	}
	switch u := t.Underlying().(type) {
	case *types.Basic:
		switch x := v.(type) {
		case bool:
			if verb == 'v' || verb == 't' {
				f.buf.WriteString(strconv.FormatBool(x))
			} else {
				f.buf.WriteString("%!" + string(verb) + "(bool=" + strconv.FormatBool(x) + ")")
			}
			return
		case string:
			switch verb {
			case 'v':
				if f.sharp {
					f.buf.WriteString(strconv.Quote(x))
				} else {
					f.buf.WriteString(x)
				}
			case 's', 'q', 'x', 'X':
				p.fmtString(f, x, verb)
			default:
				f.buf.WriteString("%!" + string(verb) + "(string=" + x + ")")
			}
			return
		case float64:
			fmt.Fprintf(&f.buf, "%"+string(verb), x)
			return
		case float32:
			fmt.Fprintf(&f.buf, "%"+string(verb), x)
			return
		}
		if k, b, ok := intBits(v); ok {
			p.fmtInt(f, k, b, verb)
			return
		}
		fmt.Fprintf(&f.buf, "%v", v)
	case *types.Pointer:
		pv, _ := v.(*value)
		if pv == nil {
			f.buf.WriteString("<nil>")
			return
		}
		if depth == 0 {
			switch u.Elem().Underlying().(type) {
			case *types.Struct, *types.Array, *types.Slice, *types.Map:
				f.buf.WriteByte('&')
				p.printValue(fr, f, u.Elem(), load(pv), verb, depth+1)
				return
			}
		}
		fmt.Fprintf(&f.buf, "0x%x", p.fakePtr(pv))
	case *types.Struct:
		s := v.(structure)
		f.buf.WriteByte('{')
		for i := 0; i < u.NumFields(); i++ {
			if i > 0 {
				f.buf.WriteByte(' ')
			}
			fld := u.Field(i)
			if f.plus || f.sharp {
				f.buf.WriteString(fld.Name())
				f.buf.WriteByte(':')
			}
			p.printField(fr, f, fld.Type(), s[i], verb, depth+1, fld.Exported())
		}
		f.buf.WriteByte('}')
	case *types.Interface:
		i := v.(iface)
		if i.t == nil {
			f.buf.WriteString("<nil>")
			return
		}
		p.printField(fr, f, i.t, i.v, verb, depth+1, true)
	case *types.Slice:
		s, _ := v.([]value)
		if k, ok := basicKindOf(u.Elem()); ok && k == types.Uint8 && (verb == 's' || verb == 'q' || verb == 'x') {
			b := make([]byte, len(s))
			for i, e := range s {
				b[i] = p.concByte(e)
			}
			p.fmtString(f, string(b), verb)
			return
		}
		if s == nil && f.sharp {
			f.buf.WriteString(p.typeString(t) + "(nil)")
			return
		}
		f.buf.WriteByte('[')
		for i, e := range s {
			if i > 0 {
				f.buf.WriteByte(' ')
			}
			p.printField(fr, f, u.Elem(), e, verb, depth+1, true)
		}
		f.buf.WriteByte(']')
	case *types.Array:
		a := v.(array)
		f.buf.WriteByte('[')
		for i, e := range a {
			if i > 0 {
				f.buf.WriteByte(' ')
			}
			p.printField(fr, f, u.Elem(), e, verb, depth+1, true)
		}
		f.buf.WriteByte(']')
	case *types.Map:
		m, _ := v.(*mapv)
		f.buf.WriteString("map[")
		if m != nil {
			first := true
			for _, e := range m.entries {
				if e.deleted {
					continue
				}
				if !first {
					f.buf.WriteByte(' ')
				}
				first = false
				p.printField(fr, f, u.Key(), e.key, verb, depth+1, true)
				f.buf.WriteByte(':')
				p.printField(fr, f, u.Elem(), e.val, verb, depth+1, true)
			}
		}
		f.buf.WriteByte(']')
	case *types.Signature:
		if isNilValue(v) {
			f.buf.WriteString("<nil>")
			return
		}
		fmt.Fprintf(&f.buf, "0x%x", p.funcPC(v))
	case *types.Chan:
		f.buf.WriteString("<chan>")
	default:
		f.buf.WriteString("<?" + t.String() + ">")
	}
}

// printField prints a nested value; methods are honoured when the field is
// exported (fmt checks CanInterface).
func (p *Path) printField(fr *frame, f *fmtSt, t types.Type, v value, verb rune, depth int, exported bool) {
	if _, isI := t.Underlying().(*types.Interface); isI {
		i := v.(iface)
		if i.t == nil {
			f.buf.WriteString("<nil>")
			return
		}
		t, v = i.t, i.v
	}
	if exported {
		if p.handleMethods(fr, f, iface{t: t, v: v}, verb) {
			return
		}
	}
	p.printValue(fr, f, t, v, verb, depth)
}

func init() {
	for k, v := range map[string]extFn{
		"fmt.Sprintf": func(p *Path, fr *frame, args []value) value {
			a, _ := args[1].([]value)
			return p.sprintf(fr, args[0].(string), a)
		},
		"fmt.Sprint": func(p *Path, fr *frame, args []value) value {
			a, _ := args[0].([]value)
			return p.sprint(fr, a, false)
		},
		"fmt.Sprintln": func(p *Path, fr *frame, args []value) value {
			a, _ := args[0].([]value)
			return p.sprint(fr, a, true)
		},
		"fmt.Fprintf": func(p *Path, fr *frame, args []value) value {
			a, _ := args[2].([]value)
			s := p.sprintf(fr, args[1].(string), a)
			p.writeTo(fr, args[0].(iface), s)
			return tuple{len(s), iface{}}
		},
		"fmt.Fprint": func(p *Path, fr *frame, args []value) value {
			a, _ := args[1].([]value)
			s := p.sprint(fr, a, false)
			p.writeTo(fr, args[0].(iface), s)
			return tuple{len(s), iface{}}
		},
		"fmt.Fprintln": func(p *Path, fr *frame, args []value) value {
			a, _ := args[1].([]value)
			s := p.sprint(fr, a, true)
			p.writeTo(fr, args[0].(iface), s)
			return tuple{len(s), iface{}}
		},
		"fmt.Errorf": func(p *Path, fr *frame, args []value) value {
			a, _ := args[1].([]value)
			s := p.sprintf(fr, strings.ReplaceAll(args[0].(string), "%w", "%v"), a)
			return iface{hostErrType, &hostObj{kind: "error", data: s}}
		},
		"fmt.Println": func(p *Path, fr *frame, args []value) value { return tuple{0, iface{}} },
		"fmt.Printf":  func(p *Path, fr *frame, args []value) value { return tuple{0, iface{}} },
	} {
		externals[k] = v
	}
}
