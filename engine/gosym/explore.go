package gosym

import (
	"fmt"
	"go/token"
	"go/types"
	"hash/fnv"
	"os"
	"sort"
	"strings"
	"sync"
	"time"

	"golang.org/x/tools/go/packages"
	"golang.org/x/tools/go/ssa"
	"golang.org/x/tools/go/ssa/ssautil"
)

// Load type-checks the package in dir (with overlay files) and builds SSA for
// it and all its dependencies.
func Load(dir string, overlay map[string][]byte, tags string) (*Program, error) {
	cfg := &packages.Config{
		Mode:    packages.LoadAllSyntax,
		Dir:     dir,
		Overlay: overlay,
		Env:     append(os.Environ(), "GOFLAGS=-mod=mod", "GOPROXY=off", "GOSUMDB=off", "GOTOOLCHAIN=local"),
	}
	if tags != "" {
		cfg.BuildFlags = []string{"-tags=" + tags}
	}
	initial, err := packages.Load(cfg, ".")
	if err != nil {
		return nil, err
	}
	var errs []string
	packages.Visit(initial, nil, func(p *packages.Package) {
		for _, e := range p.Errors {
			errs = append(errs, e.Error())
		}
	})
	if len(errs) > 0 {
		return nil, fmt.Errorf("package errors:\n%s", strings.Join(errs, "\n"))
	}
	prog, pkgs := ssautil.AllPackages(initial, ssa.InstantiateGenerics)
	prog.Build()
	P := &Program{Prog: prog, Main: pkgs[0], InitPkgs: map[string]bool{}, funcID: map[*ssa.Function]int{}}
	P.Limits = Limits{MaxDepth: 600, MaxSteps: 20_000_000, MaxConc: 64}
	rt := prog.ImportedPackage("runtime")
	if rt == nil {
		return nil, fmt.Errorf("runtime package not loaded")
	}
	P.runtimeErrorString = rt.Type("errorString").Type()
	if r := prog.ImportedPackage("reflect"); r != nil {
		rV := r.Pkg.Scope().Lookup("Value").Type().(*types.Named)
		P.reflectValue = rV
		tEface := types.NewInterfaceType(nil, nil).Complete()
		rV.SetUnderlying(types.NewStruct([]*types.Var{
			types.NewField(token.NoPos, r.Pkg, "t", tEface, false),
			types.NewField(token.NoPos, r.Pkg, "v", tEface, false),
			types.NewField(token.NoPos, r.Pkg, "f", types.Typ[types.Int], false),
		}, nil))
		P.reflectType = r.Pkg.Scope().Lookup("Type").Type().(*types.Named)
	}
	mainPath := P.Main.Pkg.Path()
	for _, pkg := range prog.AllPackages() {
		pp := pkg.Pkg.Path()
		if pp == mainPath || strings.HasPrefix(pp, mainPath+"/") {
			P.InitPkgs[pp] = true
		}
	}
	for _, pp := range []string{"bytes", "io", "container/list", "sort"} {
		P.InitPkgs[pp] = true
	}
	return P, nil
}

// PathResult summarises one executed path.
type PathResult struct {
	Decisions    []Decision
	Outcome      string // done | pruned | violation | fuel | panic | error
	Detail       string
	Violations   []Violation
	Witnesses    []string
	Observes     []string
	Nondets      []NondetRec
	Model        map[string]uint64
	Forks        int
	Steps        int64
	Inconclusive []string
}

// RunPath executes the entry function once along the given decision prefix.
func (P *Program) RunPath(solver *Solver, entry *ssa.Function, prefix []Decision, wantModel func(*Path) bool) (res PathResult, alts [][]Decision, p *Path) {
	p = P.NewPath(solver, prefix)
	defer func() {
		r := recover()
		res.Decisions = p.taken
		res.Forks = p.Forks
		res.Steps = p.steps
		res.Violations = p.Violations
		res.Nondets = p.nondets
		res.Observes = p.observes
		res.Inconclusive = p.Inconclusive
		for w := range p.witnesses {
			res.Witnesses = append(res.Witnesses, w)
		}
		sort.Strings(res.Witnesses)
		alts = p.alts
		switch r := r.(type) {
		case nil:
			res.Outcome = "done"
		case pathAbort:
			res.Outcome = "pruned"
			res.Detail = r.reason
		case fuelExhausted:
			res.Outcome = "fuel"
			res.Detail = r.kind
		case targetPanic:
			res.Outcome = "panic"
			res.Detail = toString(r.v)
		case engineError:
			res.Outcome = "error"
			res.Detail = r.msg
		default:
			res.Outcome = "error"
			res.Detail = fmt.Sprintf("host panic: %v", r)
		}
		if len(p.Violations) > 0 {
			res.Outcome = "violation"
		}
		if p.replaying() && res.Outcome != "error" {
			res.Outcome = "error"
			res.Detail = fmt.Sprintf("replay diverged: path ended (%s) with %d unread prefix decisions", res.Detail, len(p.prefix)-p.pos)
		}
		if res.Outcome == "fuel" || res.Outcome == "panic" || (res.Outcome == "done" && wantModel != nil && wantModel(p)) {
			func() {
				defer func() { recover() }()
				res.Model = p.FinalModel()
			}()
		}
	}()
	// package initialisers
	for _, pkg := range P.Prog.AllPackages() {
		if P.InitPkgs[pkg.Pkg.Path()] {
			if init := pkg.Func("init"); init != nil {
				p.callSSA(nil, token.NoPos, init, nil, nil)
			}
		}
	}
	p.steps = 0
	p.callSSA(nil, token.NoPos, entry, nil, nil)
	return
}

// Config controls an exploration.
type Config struct {
	Entry      string
	Workers    int
	Solver     string
	TimeoutMs  int
	MaxPaths   int64
	Deadline   time.Time
	Seed       int64
	SampleMod  uint64 // keep a model for 1 in SampleMod completed paths (0 = none)
	MaxSamples int
	Verbose    bool
}

// Result aggregates an exploration.
type Result struct {
	Paths, Done, Pruned, Forks int64
	Steps                      int64
	Violations                 []PathResult
	Fuel                       []PathResult
	Panics                     []PathResult
	Errors                     []PathResult
	Inconclusive               []string
	Witnesses                  map[string]int64
	WitnessPaths               int64
	FnCounts                   map[string]int64
	Samples                    []PathResult
	Exhaustive                 bool
	Queries                    int64
	SolverWall                 time.Duration
	MaxQuery                   time.Duration
	AssertsZ3, AssertsRewr     int64
	UnknownFeas                int64
	SolverErrors               int64
	Wall                       time.Duration
}

func hashDecisions(ds []Decision, seed int64) uint64 {
	h := fnv.New64a()
	fmt.Fprintf(h, "%d|", seed)
	for _, d := range ds {
		fmt.Fprintf(h, "%d,", d.V)
	}
	return h.Sum64()
}

// Explore runs the entry function along every feasible path.
func (P *Program) Explore(cfg Config) (*Result, error) {
	entry := P.Main.Func(cfg.Entry)
	if entry == nil {
		return nil, fmt.Errorf("entry function %s not found in %s", cfg.Entry, P.Main.Pkg.Path())
	}
	if cfg.Workers <= 0 {
		cfg.Workers = 1
	}
	if cfg.TimeoutMs == 0 {
		cfg.TimeoutMs = 10000
	}
	res := &Result{Witnesses: map[string]int64{}, FnCounts: map[string]int64{}}
	start := time.Now()

	var mu sync.Mutex
	cond := sync.NewCond(&mu)
	work := [][]Decision{nil}
	busy := 0
	stop := false
	exhausted := true

	var wg sync.WaitGroup
	var firstErr error
	for w := 0; w < cfg.Workers; w++ {
		solver, err := NewSolver(cfg.Solver, cfg.TimeoutMs)
		if err != nil {
			return nil, err
		}
		if lf := os.Getenv("VERIF_SMTLOG"); lf != "" && w == 0 {
			f, _ := os.Create(lf)
			solver.Log = f
		}
		wg.Add(1)
		go func(solver *Solver) {
			defer wg.Done()
			defer solver.Close()
			fn := map[*ssa.Function]int{}
			for {
				mu.Lock()
				for len(work) == 0 && busy > 0 && !stop {
					cond.Wait()
				}
				if stop || (len(work) == 0 && busy == 0) {
					mu.Unlock()
					cond.Broadcast()
					break
				}
				prefix := work[len(work)-1]
				work = work[:len(work)-1]
				busy++
				mu.Unlock()

				mu.Lock()
				needSamples := len(res.Samples) < cfg.MaxSamples
				mu.Unlock()
				want := func(p *Path) bool {
					return needSamples && cfg.SampleMod > 0 && hashDecisions(p.taken, cfg.Seed)%cfg.SampleMod == 0
				}
				pr, alts, p := P.RunPath(solver, entry, prefix, want)
				for f, c := range p.fnCount {
					fn[f] += c
				}

				mu.Lock()
				busy--
				work = append(work, alts...)
				res.Paths++
				res.Forks += int64(pr.Forks)
				res.Steps += pr.Steps
				res.AssertsZ3 += int64(p.AssertsZ3)
				res.AssertsRewr += int64(p.AssertsRewr)
				res.UnknownFeas += int64(p.unknownFeas)
				res.Inconclusive = append(res.Inconclusive, pr.Inconclusive...)
				switch pr.Outcome {
				case "done":
					res.Done++
					for _, w := range pr.Witnesses {
						res.Witnesses[w]++
					}
					if len(pr.Witnesses) > 0 {
						res.WitnessPaths++
					}
					if pr.Model != nil && len(res.Samples) < cfg.MaxSamples {
						res.Samples = append(res.Samples, pr)
					}
				case "pruned":
					res.Pruned++
				case "violation":
					res.Violations = append(res.Violations, pr)
				case "fuel":
					res.Fuel = append(res.Fuel, pr)
				case "panic":
					res.Panics = append(res.Panics, pr)
				default:
					res.Errors = append(res.Errors, pr)
					if len(res.Errors) > 20 {
						stop = true
						exhausted = false
					}
				}
				if cfg.MaxPaths > 0 && res.Paths >= cfg.MaxPaths && (len(work) > 0 || busy > 0) {
					stop = true
					exhausted = false
				}
				if !cfg.Deadline.IsZero() && time.Now().After(cfg.Deadline) && (len(work) > 0 || busy > 0) {
					stop = true
					exhausted = false
				}
				if len(res.Violations) > 50 {
					stop = true
					exhausted = false
				}
				if cfg.Verbose && res.Paths%1000 == 0 {
					fmt.Fprintf(os.Stderr, "[%s] paths=%d done=%d pruned=%d work=%d viol=%d\n", time.Since(start).Round(time.Second), res.Paths, res.Done, res.Pruned, len(work), len(res.Violations))
				}
				mu.Unlock()
				cond.Broadcast()
			}
			mu.Lock()
			for f, c := range fn {
				res.FnCounts[f.String()] += int64(c)
			}
			res.Queries += int64(solver.Queries)
			res.SolverWall += solver.Wall
			if solver.MaxQuery > res.MaxQuery {
				res.MaxQuery = solver.MaxQuery
			}
			res.SolverErrors += int64(solver.Errors)
			if solver.Errors > 0 && firstErr == nil {
				firstErr = fmt.Errorf("solver error: %s", solver.LastError)
			}
			mu.Unlock()
		}(solver)
	}
	wg.Wait()
	res.Exhaustive = exhausted && len(work) == 0
	res.Wall = time.Since(start)
	if firstErr != nil {
		res.Inconclusive = append(res.Inconclusive, firstErr.Error())
	}
	return res, nil
}
