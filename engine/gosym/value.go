package gosym

import (
	"bytes"
	"fmt"
	"go/types"
	"math"
	"unsafe"

	"golang.org/x/tools/go/ssa"
)

type value interface{}

type tuple []value
type array []value
type structure []value

// iface is the value of any interface-typed expression.
type iface struct {
	t types.Type // dynamic type; nil for the nil interface
	v value
}

type closure struct {
	Fn  *ssa.Function
	Env []value
}

// makeFunc is a function value created by reflect.MakeFunc.
type makeFunc struct {
	sig *types.Signature
	typ types.Type // the func type as given to MakeFunc
	fn  value      // func([]reflect.Value) []reflect.Value
}

type bad struct{}

// rtype is the dynamic value behind a reflect.Type.
type rtype struct {
	t types.Type
}

// Sym is a symbolic scalar: a Bool or a fixed-width integer.
type Sym struct {
	k types.BasicKind
	t *Term
}

func (s *Sym) String() string { return fmt.Sprintf("sym<%s>", s.t) }

// ---- integer kinds ----------------------------------------------------------

func kindWidth(k types.BasicKind) uint8 {
	switch k {
	case types.Bool, types.UntypedBool:
		return 0
	case types.Int8, types.Uint8:
		return 8
	case types.Int16, types.Uint16:
		return 16
	case types.Int32, types.Uint32, types.UntypedRune:
		return 32
	}
	return 64
}

func kindSigned(k types.BasicKind) bool {
	switch k {
	case types.Int, types.Int8, types.Int16, types.Int32, types.Int64, types.UntypedInt, types.UntypedRune:
		return true
	}
	return false
}

// intBits returns the kind and two's-complement bits of a concrete integer.
func intBits(x value) (types.BasicKind, uint64, bool) {
	switch x := x.(type) {
	case int:
		return types.Int, uint64(x), true
	case int8:
		return types.Int8, uint64(x), true
	case int16:
		return types.Int16, uint64(x), true
	case int32:
		return types.Int32, uint64(x), true
	case int64:
		return types.Int64, uint64(x), true
	case uint:
		return types.Uint, uint64(x), true
	case uint8:
		return types.Uint8, uint64(x), true
	case uint16:
		return types.Uint16, uint64(x), true
	case uint32:
		return types.Uint32, uint64(x), true
	case uint64:
		return types.Uint64, x, true
	case uintptr:
		return types.Uintptr, uint64(x), true
	}
	return 0, 0, false
}

func mkInt(k types.BasicKind, b uint64) value {
	switch k {
	case types.Int, types.UntypedInt:
		return int(b)
	case types.Int8:
		return int8(b)
	case types.Int16:
		return int16(b)
	case types.Int32, types.UntypedRune:
		return int32(b)
	case types.Int64:
		return int64(b)
	case types.Uint:
		return uint(b)
	case types.Uint8:
		return uint8(b)
	case types.Uint16:
		return uint16(b)
	case types.Uint32:
		return uint32(b)
	case types.Uint64:
		return b
	case types.Uintptr:
		return uintptr(b)
	}
	panic(fmt.Sprintf("mkInt: kind %v", k))
}

func asInt64(x value) int64 {
	k, b, ok := intBits(x)
	if !ok {
		panic(engineError{fmt.Sprintf("cannot convert %T to int64", x)})
	}
	if kindSigned(k) {
		return sext(b, kindWidth(k))
	}
	return int64(b & mask(kindWidth(k)))
}

func asInt(x value) int { return int(asInt64(x)) }

func basicKindOf(t types.Type) (types.BasicKind, bool) {
	b, ok := t.Underlying().(*types.Basic)
	if !ok {
		return 0, false
	}
	k := b.Kind()
	switch k {
	case types.UntypedInt:
		k = types.Int
	case types.UntypedRune:
		k = types.Int32
	case types.UntypedBool:
		k = types.Bool
	case types.UntypedFloat:
		k = types.Float64
	case types.UntypedString:
		k = types.String
	}
	return k, true
}

// ---- zero / load / store ------------------------------------------------------

func deref(t types.Type) types.Type {
	return t.Underlying().(*types.Pointer).Elem()
}

func zero(t types.Type) value {
	switch t := t.(type) {
	case *types.Basic:
		if t.Kind() == types.UntypedNil {
			panic(engineError{"untyped nil has no zero value"})
		}
		k, _ := basicKindOf(t)
		switch k {
		case types.Bool:
			return false
		case types.Float32:
			return float32(0)
		case types.Float64:
			return float64(0)
		case types.Complex64:
			return complex64(0)
		case types.Complex128:
			return complex128(0)
		case types.String:
			return ""
		case types.UnsafePointer:
			return unsafe.Pointer(nil)
		}
		return mkInt(k, 0)
	case *types.Pointer:
		return (*value)(nil)
	case *types.Array:
		if t.Len() > 1<<20 {
			panic(engineError{"array value too large for the engine: " + t.String()})
		}
		a := make(array, t.Len())
		for i := range a {
			a[i] = zero(t.Elem())
		}
		return a
	case *types.Named:
		return zero(t.Underlying())
	case *types.Alias:
		return zero(types.Unalias(t))
	case *types.Interface:
		return iface{}
	case *types.Slice:
		return []value(nil)
	case *types.Struct:
		s := make(structure, t.NumFields())
		for i := range s {
			s[i] = zero(t.Field(i).Type())
		}
		return s
	case *types.Tuple:
		if t.Len() == 1 {
			return zero(t.At(0).Type())
		}
		s := make(tuple, t.Len())
		for i := range s {
			s[i] = zero(t.At(i).Type())
		}
		return s
	case *types.Chan:
		return (*chanv)(nil)
	case *types.Map:
		return (*mapv)(nil)
	case *types.Signature:
		return (*ssa.Function)(nil)
	}
	panic(engineError{fmt.Sprint("zero: unexpected ", t)})
}

type chanv struct{}

// copyVal makes a deep copy of aggregate values (structs, arrays), which have
// value semantics; everything else is shared.
func copyVal(v value) value {
	switch v := v.(type) {
	case structure:
		a := make(structure, len(v))
		for i := range a {
			a[i] = copyVal(v[i])
		}
		return a
	case array:
		a := make(array, len(v))
		for i := range a {
			a[i] = copyVal(v[i])
		}
		return a
	}
	return v
}

func load(addr *value) value { return copyVal(*addr) }

func store(addr *value, v value) {
	switch rhs := v.(type) {
	case structure:
		lhs, ok := (*addr).(structure)
		if !ok || len(lhs) != len(rhs) {
			*addr = copyVal(v)
			return
		}
		// store field-wise so that outstanding field addresses stay valid
		for i := range lhs {
			store(&lhs[i], rhs[i])
		}
	case array:
		lhs, ok := (*addr).(array)
		if !ok || len(lhs) != len(rhs) {
			*addr = copyVal(v)
			return
		}
		for i := range lhs {
			store(&lhs[i], rhs[i])
		}
	default:
		*addr = v
	}
}

// ---- printing ----------------------------------------------------------------

func writeValue(buf *bytes.Buffer, v value, depth int) {
	if depth > 4 {
		buf.WriteString("…")
		return
	}
	switch v := v.(type) {
	case nil, bool, int, int8, int16, int32, int64, uint, uint8, uint16, uint32, uint64, uintptr, float32, float64, complex64, complex128, string:
		fmt.Fprintf(buf, "%v", v)
	case *Sym:
		buf.WriteString(v.String())
	case *mapv:
		buf.WriteString("map[")
		if v != nil {
			for i, e := range v.entries {
				if i > 0 {
					buf.WriteString(" ")
				}
				writeValue(buf, e.key, depth+1)
				buf.WriteString(":")
				writeValue(buf, e.val, depth+1)
			}
		}
		buf.WriteString("]")
	case *value:
		if v == nil {
			buf.WriteString("<nil>")
		} else {
			fmt.Fprintf(buf, "%p", v)
		}
	case iface:
		fmt.Fprintf(buf, "(%v, ", v.t)
		writeValue(buf, v.v, depth+1)
		buf.WriteString(")")
	case structure:
		buf.WriteString("{")
		for i, e := range v {
			if i > 0 {
				buf.WriteString(" ")
			}
			writeValue(buf, e, depth+1)
		}
		buf.WriteString("}")
	case array:
		buf.WriteString("[")
		for i, e := range v {
			if i > 0 {
				buf.WriteString(" ")
			}
			writeValue(buf, e, depth+1)
		}
		buf.WriteString("]")
	case []value:
		buf.WriteString("[")
		for i, e := range v {
			if i > 0 {
				buf.WriteString(" ")
			}
			writeValue(buf, e, depth+1)
		}
		buf.WriteString("]")
	case *ssa.Function:
		if v == nil {
			buf.WriteString("<nil func>")
		} else {
			buf.WriteString(v.String())
		}
	case *closure:
		buf.WriteString("closure:" + v.Fn.String())
	case *makeFunc:
		buf.WriteString("makeFunc:" + v.sig.String())
	case rtype:
		buf.WriteString(v.t.String())
	case tuple:
		buf.WriteString("(")
		for i, e := range v {
			if i > 0 {
				buf.WriteString(", ")
			}
			writeValue(buf, e, depth+1)
		}
		buf.WriteString(")")
	default:
		fmt.Fprintf(buf, "<%T>", v)
	}
}

func toString(v value) string {
	var b bytes.Buffer
	writeValue(&b, v, 0)
	return b.String()
}

var _ = math.MaxInt64
