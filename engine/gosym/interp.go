package gosym

import (
	"fmt"
	"go/token"
	"go/types"
	"runtime"
	"strings"
	"sync"

	"golang.org/x/tools/go/ssa"
)

// Program is the immutable, shared part: the SSA program and tables derived
// from it.
type Program struct {
	Prog     *ssa.Program
	Main     *ssa.Package // the package holding the harness
	InitPkgs map[string]bool

	runtimeErrorString types.Type
	reflectValue       *types.Named
	reflectType        *types.Named
	errorIface         *types.Interface

	fninfo sync.Map // *ssa.Function -> *fnInfo
	funcs  []*ssa.Function
	funcID map[*ssa.Function]int
	mu     sync.Mutex

	Limits Limits
}

type Limits struct {
	MaxDepth int
	MaxSteps int64
	MaxConc  int
}

type fnInfo struct {
	slot map[ssa.Value]int
	n    int
}

func (P *Program) info(fn *ssa.Function) *fnInfo {
	if v, ok := P.fninfo.Load(fn); ok {
		return v.(*fnInfo)
	}
	fi := &fnInfo{slot: make(map[ssa.Value]int)}
	add := func(v ssa.Value) {
		if _, ok := fi.slot[v]; !ok {
			fi.slot[v] = fi.n
			fi.n++
		}
	}
	for _, p := range fn.Params {
		add(p)
	}
	for _, fv := range fn.FreeVars {
		add(fv)
	}
	for _, l := range fn.Locals {
		add(l)
	}
	for _, b := range fn.Blocks {
		for _, ins := range b.Instrs {
			if v, ok := ins.(ssa.Value); ok {
				add(v)
			}
		}
	}
	v, _ := P.fninfo.LoadOrStore(fn, fi)
	return v.(*fnInfo)
}

type deferred struct {
	fn    value
	args  []value
	instr *ssa.Defer
	tail  *deferred
}

type frame struct {
	p                *Path
	caller           *frame
	fn               *ssa.Function
	fi               *fnInfo
	block, prevBlock *ssa.BasicBlock
	env              []value
	defers           *deferred
	result           value
	panicking        bool
	panic            interface{}
	phitemps         []value
}

func (fr *frame) get(key ssa.Value) value {
	switch key := key.(type) {
	case nil:
		return nil
	case *ssa.Function, *ssa.Builtin:
		return key
	case *ssa.Const:
		return constValue(key)
	case *ssa.Global:
		return fr.p.global(key)
	}
	if i, ok := fr.fi.slot[key]; ok {
		return fr.env[i]
	}
	panic(engineError{fmt.Sprintf("get: no value for %T: %v", key, key.Name())})
}

func (fr *frame) set(key ssa.Value, v value) {
	fr.env[fr.fi.slot[key]] = v
}

func (p *Path) global(g *ssa.Global) *value {
	if r, ok := p.globals[g]; ok {
		return r
	}
	if g.Pkg != nil && !p.P.InitPkgs[g.Pkg.Pkg.Path()] {
		if !allowedUninitGlobal(g) {
			panic(engineError{"global of uninitialised package read: " + g.String()})
		}
	}
	cell := zero(deref(g.Type()))
	p.globals[g] = &cell
	return &cell
}

func allowedUninitGlobal(g *ssa.Global) bool {
	// globals that are plain zero-initialised data (no initialiser needed)
	return strings.HasPrefix(g.Name(), "init$guard")
}

func (fr *frame) runDefer(d *deferred) {
	var ok bool
	defer func() {
		if !ok {
			r := recover()
			if _, isTarget := r.(targetPanic); !isTarget {
				panic(r) // engine exceptions pass through
			}
			fr.panicking = true
			fr.panic = r
		}
	}()
	fr.p.call(fr, d.instr.Pos(), d.fn, d.args)
	ok = true
}

func (fr *frame) runDefers() {
	for d := fr.defers; d != nil; d = d.tail {
		fr.runDefer(d)
	}
	fr.defers = nil
	if fr.panicking {
		panic(fr.panic)
	}
}

func (p *Path) lookupMethod(typ types.Type, meth *types.Func) value {
	if typ == rtypeType || typ == fmtStateType || typ == hostErrType {
		return &hostMethod{recv: typ, name: meth.Name()}
	}
	if f := p.P.Prog.LookupMethod(typ, meth.Pkg(), meth.Name()); f != nil {
		return f
	}
	return nil
}

// hostMethod is a method of an engine-implemented type.
type hostMethod struct {
	recv types.Type
	name string
}

func (p *Path) runtimePanic(msg string) targetPanic {
	return targetPanic{iface{p.P.runtimeErrorString, msg}}
}

func (p *Path) step() {
	p.steps++
	if p.steps > p.P.Limits.MaxSteps {
		panic(fuelExhausted{"steps"})
	}
}

func (p *Path) visitInstr(fr *frame, instr ssa.Instruction) bool {
	p.step()
	switch instr := instr.(type) {
	case *ssa.DebugRef:
	case *ssa.UnOp:
		fr.set(instr, p.unop(instr, fr.get(instr.X)))
	case *ssa.BinOp:
		fr.set(instr, p.binop(instr.Op, instr.X.Type(), fr.get(instr.X), fr.get(instr.Y)))
	case *ssa.Call:
		fn, args := p.prepareCall(fr, &instr.Call)
		fr.set(instr, p.call(fr, instr.Pos(), fn, args))
	case *ssa.ChangeInterface:
		fr.set(instr, fr.get(instr.X))
	case *ssa.ChangeType:
		fr.set(instr, fr.get(instr.X))
	case *ssa.Convert:
		fr.set(instr, p.conv(instr.Type(), instr.X.Type(), fr.get(instr.X)))
	case *ssa.MakeInterface:
		fr.set(instr, iface{t: instr.X.Type(), v: fr.get(instr.X)})
	case *ssa.Extract:
		fr.set(instr, fr.get(instr.Tuple).(tuple)[instr.Index])
	case *ssa.Slice:
		fr.set(instr, p.slice(instr, fr.get(instr.X), fr.get(instr.Low), fr.get(instr.High), fr.get(instr.Max)))
	case *ssa.Return:
		switch len(instr.Results) {
		case 0:
		case 1:
			fr.result = fr.get(instr.Results[0])
		default:
			res := make([]value, len(instr.Results))
			for i, r := range instr.Results {
				res[i] = fr.get(r)
			}
			fr.result = tuple(res)
		}
		fr.block = nil
		return true
	case *ssa.RunDefers:
		fr.runDefers()
	case *ssa.Panic:
		panic(targetPanic{fr.get(instr.X)})
	case *ssa.Store:
		addr := fr.get(instr.Addr).(*value)
		if addr == nil {
			panic(p.runtimePanic("invalid memory address or nil pointer dereference"))
		}
		store(addr, fr.get(instr.Val))
	case *ssa.If:
		succ := 1
		if p.truth(fr.get(instr.Cond), "if") {
			succ = 0
		}
		fr.prevBlock, fr.block = fr.block, fr.block.Succs[succ]
		return true
	case *ssa.Jump:
		fr.prevBlock, fr.block = fr.block, fr.block.Succs[0]
		return true
	case *ssa.Defer:
		fn, args := p.prepareCall(fr, &instr.Call)
		defers := &fr.defers
		if instr.DeferStack != nil {
			if into := fr.get(instr.DeferStack); into != nil {
				defers = into.(**deferred)
			}
		}
		*defers = &deferred{fn: fn, args: args, instr: instr, tail: *defers}
	case *ssa.Go, *ssa.Send, *ssa.Select, *ssa.MakeChan:
		panic(engineError{fmt.Sprintf("unsupported instruction %T (concurrency)", instr)})
	case *ssa.Alloc:
		cell := zero(deref(instr.Type()))
		fr.set(instr, &cell)
	case *ssa.MakeSlice:
		n := p.concInt(fr.get(instr.Len), "makeslice-len")
		c := p.concInt(fr.get(instr.Cap), "makeslice-cap")
		if n < 0 || c < n || c > 1<<24 {
			panic(p.runtimePanic("makeslice: len out of range"))
		}
		s := make([]value, c)
		tElt := instr.Type().Underlying().(*types.Slice).Elem()
		for i := range s {
			s[i] = zero(tElt)
		}
		fr.set(instr, s[:n])
	case *ssa.MakeMap:
		fr.set(instr, &mapv{keyT: instr.Type().Underlying().(*types.Map).Key()})
	case *ssa.Range:
		fr.set(instr, p.rangeIter(fr.get(instr.X), instr.X.Type()))
	case *ssa.Next:
		fr.set(instr, fr.get(instr.Iter).(iter).next())
	case *ssa.FieldAddr:
		ptr := fr.get(instr.X).(*value)
		if ptr == nil {
			panic(p.runtimePanic("invalid memory address or nil pointer dereference"))
		}
		fr.set(instr, &(*ptr).(structure)[instr.Field])
	case *ssa.Field:
		fr.set(instr, copyVal(fr.get(instr.X).(structure)[instr.Field]))
	case *ssa.IndexAddr:
		x := fr.get(instr.X)
		switch x := x.(type) {
		case []value:
			i := p.index(fr.get(instr.Index), len(x))
			fr.set(instr, &x[i])
		case *value:
			if x == nil {
				panic(p.runtimePanic("invalid memory address or nil pointer dereference"))
			}
			a := (*x).(array)
			i := p.index(fr.get(instr.Index), len(a))
			fr.set(instr, &a[i])
		default:
			panic(engineError{fmt.Sprintf("unexpected x type in IndexAddr: %T", x)})
		}
	case *ssa.Index:
		x := fr.get(instr.X)
		switch x := x.(type) {
		case array:
			i := p.index(fr.get(instr.Index), len(x))
			fr.set(instr, copyVal(x[i]))
		case string:
			i := p.index(fr.get(instr.Index), len(x))
			fr.set(instr, x[i])
		default:
			panic(engineError{fmt.Sprintf("unexpected x type in Index: %T", x)})
		}
	case *ssa.Lookup:
		fr.set(instr, p.lookup(instr, fr.get(instr.X), fr.get(instr.Index)))
	case *ssa.MapUpdate:
		m := fr.get(instr.Map).(*mapv)
		if m == nil {
			panic(p.runtimePanic("assignment to entry in nil map"))
		}
		p.mapInsert(m, fr.get(instr.Key), fr.get(instr.Value))
	case *ssa.TypeAssert:
		fr.set(instr, p.typeAssert(instr, fr.get(instr.X).(iface)))
	case *ssa.MakeClosure:
		bindings := make([]value, len(instr.Bindings))
		for i, b := range instr.Bindings {
			bindings[i] = fr.get(b)
		}
		fr.set(instr, &closure{instr.Fn.(*ssa.Function), bindings})
	case *ssa.Phi:
		panic(engineError{"unreachable phi"})
	case *ssa.SliceToArrayPointer:
		panic(engineError{"SliceToArrayPointer"})
	default:
		panic(engineError{fmt.Sprintf("unexpected instruction: %T", instr)})
	}
	return false
}

// index checks a (possibly symbolic) index against a length.
func (p *Path) index(idx value, n int) int {
	if s, ok := idx.(*Sym); ok {
		w := s.t.w
		inRange := p.ts.Bin(OpULt, s.t, p.ts.Const(uint64(n), w))
		if !p.decide(inRange, "index-in-range") {
			panic(p.runtimePanic(fmt.Sprintf("index out of range [sym] with length %d", n)))
		}
		return int(asInt64(p.concretise(s, "index")))
	}
	i := asInt64(idx)
	if i < 0 || i >= int64(n) {
		panic(p.runtimePanic(fmt.Sprintf("index out of range [%d] with length %d", i, n)))
	}
	return int(i)
}

// concInt returns a concrete int for a possibly symbolic integer.
func (p *Path) concInt(v value, why string) int {
	if s, ok := v.(*Sym); ok {
		return int(asInt64(p.concretise(s, why)))
	}
	return int(asInt64(v))
}

// truth decides a (possibly symbolic) condition.
func (p *Path) truth(v value, why string) bool {
	switch v := v.(type) {
	case bool:
		return v
	case *Sym:
		return p.decide(v.t, why)
	}
	panic(engineError{fmt.Sprintf("truth of %T", v)})
}

func (p *Path) slice(instr *ssa.Slice, x, lo, hi, max value) value {
	var Len, Cap int
	switch x := x.(type) {
	case string:
		Len = len(x)
		Cap = Len
	case []value:
		Len = len(x)
		Cap = cap(x)
	case *value:
		if x == nil {
			panic(p.runtimePanic("invalid memory address or nil pointer dereference"))
		}
		a := (*x).(array)
		Len = len(a)
		Cap = len(a)
	}
	l := 0
	if lo != nil {
		l = p.concInt(lo, "slice-lo")
	}
	h := Len
	if hi != nil {
		h = p.concInt(hi, "slice-hi")
	}
	m := Cap
	if max != nil {
		m = p.concInt(max, "slice-max")
	}
	if _, isStr := x.(string); isStr {
		if l < 0 || h < l || h > Len {
			panic(p.runtimePanic(fmt.Sprintf("slice bounds out of range [%d:%d] with length %d", l, h, Len)))
		}
		return x.(string)[l:h]
	}
	if l < 0 || h < l || m < h || m > Cap {
		panic(p.runtimePanic(fmt.Sprintf("slice bounds out of range [%d:%d:%d] with capacity %d", l, h, m, Cap)))
	}
	switch x := x.(type) {
	case []value:
		if x == nil && h == 0 {
			return []value(nil)
		}
		return x[l:h:m]
	case *value:
		a := (*x).(array)
		return []value(a)[l:h:m]
	}
	panic(engineError{fmt.Sprintf("slice: unexpected X type: %T", x)})
}

func (p *Path) prepareCall(fr *frame, call *ssa.CallCommon) (fn value, args []value) {
	v := fr.get(call.Value)
	if call.Method == nil {
		fn = v
	} else {
		recv := v.(iface)
		if recv.t == nil {
			panic(p.runtimePanic("invalid memory address or nil pointer dereference (method call on nil interface)"))
		}
		f := p.lookupMethod(recv.t, call.Method)
		if f == nil {
			panic(engineError{fmt.Sprintf("method set for dynamic type %v does not contain %s", recv.t, call.Method)})
		}
		fn = f
		args = append(args, recv.v)
	}
	for _, arg := range call.Args {
		args = append(args, fr.get(arg))
	}
	return
}

func (p *Path) call(caller *frame, callpos token.Pos, fn value, args []value) value {
	switch fn := fn.(type) {
	case *ssa.Function:
		if fn == nil {
			panic(p.runtimePanic("invalid memory address or nil pointer dereference (call of nil func)"))
		}
		return p.callSSA(caller, callpos, fn, args, nil)
	case *closure:
		if fn == nil {
			panic(p.runtimePanic("call of nil func"))
		}
		return p.callSSA(caller, callpos, fn.Fn, args, fn.Env)
	case *ssa.Builtin:
		return p.callBuiltin(caller, callpos, fn, args)
	case *hostMethod:
		return p.callHostMethod(caller, fn, args)
	case *makeFunc:
		return p.callMakeFunc(caller, fn, args)
	}
	panic(engineError{fmt.Sprintf("cannot call %T", fn)})
}

func (p *Path) callSSA(caller *frame, callpos token.Pos, fn *ssa.Function, args []value, env []value) value {
	fr := &frame{p: p, caller: caller, fn: fn}
	if fn.Parent() == nil {
		name := fn.String()
		if ext := externals[name]; ext != nil {
			return ext(p, fr, args)
		}
		if fn.Pkg != nil && fn.Pkg == p.P.Main && strings.HasPrefix(fn.Name(), "verif") {
			if h := harnessHooks[fn.Name()]; h != nil {
				return h(p, fr, args)
			}
		}
		if fn.Synthetic == "package initializer" && !p.P.InitPkgs[fn.Pkg.Pkg.Path()] {
			return nil
		}
		if fn.Blocks == nil {
			panic(engineError{"no code for function: " + name})
		}
	}
	if fn.Blocks == nil {
		panic(engineError{"no code for function: " + fn.String()})
	}
	checkSSAAllowed(fn)
	p.depth++
	if p.depth > p.P.Limits.MaxDepth {
		panic(fuelExhausted{"depth"})
	}
	defer func() { p.depth-- }()
	p.count(fn)
	fi := p.P.info(fn)
	fr.fi = fi
	fr.env = make([]value, fi.n)
	fr.block = fn.Blocks[0]
	for _, l := range fn.Locals {
		cell := zero(deref(l.Type()))
		fr.env[fi.slot[l]] = &cell
	}
	for i, prm := range fn.Params {
		fr.env[fi.slot[prm]] = args[i]
	}
	for i, fv := range fn.FreeVars {
		fr.env[fi.slot[fv]] = env[i]
	}
	for fr.block != nil {
		p.runFrame(fr)
	}
	return fr.result
}

func (p *Path) runFrame(fr *frame) {
	defer func() {
		if fr.block == nil {
			return
		}
		r := recover()
		switch r := r.(type) {
		case targetPanic:
			fr.panicking = true
			fr.panic = r
			fr.runDefers()
			fr.block = fr.fn.Recover
			if fr.block == nil {
				// function has no recover block: result is zero values
				fr.result = zeroResult(fr.fn)
			}
		case runtime.Error:
			buf := make([]byte, 4096)
			buf = buf[:runtime.Stack(buf, false)]
			panic(engineError{fmt.Sprintf("host runtime error in %s: %v\n%s", fr.fn, r, buf)})
		default:
			panic(r)
		}
	}()
	for {
		nonPhis := p.executePhis(fr)
		for _, instr := range nonPhis {
			if p.visitInstr(fr, instr) {
				if fr.block == nil {
					return
				}
				break
			}
		}
	}
}

func zeroResult(fn *ssa.Function) value {
	res := fn.Signature.Results()
	switch res.Len() {
	case 0:
		return nil
	case 1:
		return zero(res.At(0).Type())
	}
	return zero(res)
}

func (p *Path) executePhis(fr *frame) []ssa.Instruction {
	firstNonPhi := -1
	for i, instr := range fr.block.Instrs {
		if _, ok := instr.(*ssa.Phi); !ok {
			firstNonPhi = i
			break
		}
	}
	nonPhis := fr.block.Instrs[firstNonPhi:]
	if firstNonPhi > 0 {
		phis := fr.block.Instrs[:firstNonPhi]
		predIndex := -1
		for i, b := range fr.block.Preds {
			if b == fr.prevBlock {
				predIndex = i
				break
			}
		}
		fr.phitemps = fr.phitemps[:0]
		for _, phi := range phis {
			fr.phitemps = append(fr.phitemps, fr.get(phi.(*ssa.Phi).Edges[predIndex]))
		}
		for i, phi := range phis {
			fr.set(phi.(*ssa.Phi), fr.phitemps[i])
		}
	}
	return nonPhis
}

func (p *Path) doRecover(caller *frame) value {
	if caller != nil && !caller.panicking &&
		caller.caller != nil && caller.caller.panicking {
		caller.caller.panicking = false
		pv := caller.caller.panic
		caller.caller.panic = nil
		switch pv := pv.(type) {
		case targetPanic:
			return pv.v
		default:
			panic(engineError{fmt.Sprintf("unexpected panic type %T in target call to recover()", pv)})
		}
	}
	return iface{}
}

// ---- type assertions ----------------------------------------------------------------

func (p *Path) typeAssert(instr *ssa.TypeAssert, itf iface) value {
	var v value
	err := ""
	if itf.t == nil {
		err = fmt.Sprintf("interface conversion: interface is nil, not %s", instr.AssertedType)
	} else if idst, ok := instr.AssertedType.Underlying().(*types.Interface); ok {
		v = itf
		if !p.implements(itf.t, idst) {
			err = fmt.Sprintf("interface conversion: %v is not %v: missing method", itf.t, instr.AssertedType)
		}
	} else {
		eq := p.typeEq(itf.t, instr.AssertedType)
		if p.decide(eq, "type-assert") {
			v = itf.v
		} else {
			err = fmt.Sprintf("interface conversion: interface is %s, not %s", itf.t, instr.AssertedType)
		}
	}
	if err != "" {
		if !instr.CommaOk {
			panic(p.runtimePanic(err))
		}
		return tuple{zero(instr.AssertedType), false}
	}
	if instr.CommaOk {
		return tuple{v, true}
	}
	return v
}

// implements reports whether dynamic type t has all methods of iface it.
func (p *Path) implements(t types.Type, it *types.Interface) bool {
	if it.NumMethods() == 0 {
		return true
	}
	switch t {
	case rtypeType:
		return hostImplements(rtypeMethodNames, it)
	case fmtStateType:
		return hostImplements(fmtStateMethodNames, it)
	case hostErrType:
		return hostImplements(hostErrMethodNames, it)
	}
	return types.Implements(t, it)
}

func hostImplements(names map[string]bool, it *types.Interface) bool {
	for i := 0; i < it.NumMethods(); i++ {
		if !names[it.Method(i).Name()] {
			return false
		}
	}
	return true
}

// ---- builtins -------------------------------------------------------------------------

func (p *Path) callBuiltin(caller *frame, callpos token.Pos, fn *ssa.Builtin, args []value) value {
	switch fn.Name() {
	case "append":
		if len(args) == 1 {
			return args[0]
		}
		if s, ok := args[1].(string); ok {
			// append([]byte, string...)
			b := make([]value, len(s))
			for i := 0; i < len(s); i++ {
				b[i] = s[i]
			}
			args[1] = b
		}
		src := args[1].([]value)
		dst, _ := args[0].([]value)
		if len(src) == 0 {
			return dst
		}
		cp := make([]value, len(src))
		for i, e := range src {
			cp[i] = copyVal(e)
		}
		return append(dst, cp...)
	case "copy":
		if s, ok := args[1].(string); ok {
			dst := args[0].([]value)
			n := 0
			for i := 0; i < len(s) && i < len(dst); i++ {
				dst[i] = s[i]
				n++
			}
			return n
		}
		dst, _ := args[0].([]value)
		src, _ := args[1].([]value)
		n := len(src)
		if len(dst) < n {
			n = len(dst)
		}
		tmp := make([]value, n)
		for i := 0; i < n; i++ {
			tmp[i] = copyVal(src[i])
		}
		copy(dst, tmp)
		return n
	case "close":
		panic(engineError{"close of channel"})
	case "delete":
		m := args[0].(*mapv)
		if m != nil {
			p.mapDelete(m, args[1])
		}
		return nil
	case "print", "println":
		return nil
	case "len":
		switch x := args[0].(type) {
		case string:
			return len(x)
		case array:
			return len(x)
		case *value:
			return len((*x).(array))
		case []value:
			return len(x)
		case *mapv:
			if x == nil {
				return 0
			}
			return len(x.entries)
		case *chanv:
			return 0
		}
		panic(engineError{fmt.Sprintf("len: illegal operand: %T", args[0])})
	case "cap":
		switch x := args[0].(type) {
		case array:
			return len(x)
		case *value:
			return len((*x).(array))
		case []value:
			return cap(x)
		}
		panic(engineError{fmt.Sprintf("cap: illegal operand: %T", args[0])})
	case "min", "max":
		r := args[0]
		for _, a := range args[1:] {
			op := token.LSS
			if fn.Name() == "max" {
				op = token.GTR
			}
			if p.truth(p.binop(op, nil, a, r), "minmax") {
				r = a
			}
		}
		return r
	case "panic":
		panic(targetPanic{args[0]})
	case "recover":
		return p.doRecover(caller)
	case "ssa:wrapnilchk":
		recv := args[0]
		if recv.(*value) == nil {
			recvType := args[1]
			methodName := args[2]
			panic(p.runtimePanic(fmt.Sprintf("value method %s.%s called using nil *%s pointer", recvType, methodName, recvType)))
		}
		return recv
	case "clear":
		switch x := args[0].(type) {
		case *mapv:
			if x != nil {
				x.entries = nil
			}
		case []value:
			for i := range x {
				x[i] = zeroLike(x[i])
			}
		}
		return nil
	}
	panic(engineError{"unknown built-in: " + fn.Name()})
}

func zeroLike(v value) value {
	switch v := v.(type) {
	case structure:
		r := make(structure, len(v))
		for i := range v {
			r[i] = zeroLike(v[i])
		}
		return r
	case array:
		r := make(array, len(v))
		for i := range v {
			r[i] = zeroLike(v[i])
		}
		return r
	case string:
		return ""
	case bool, *Sym:
		if s, ok := v.(*Sym); ok {
			if s.k == types.Bool {
				return false
			}
			return mkInt(s.k, 0)
		}
		return false
	case iface:
		return iface{}
	case *value:
		return (*value)(nil)
	case []value:
		return []value(nil)
	case *mapv:
		return (*mapv)(nil)
	}
	if k, _, ok := intBits(v); ok {
		return mkInt(k, 0)
	}
	return nil
}

// ---- iteration --------------------------------------------------------------------------

type iter interface{ next() tuple }

type stringIter struct {
	s string
	i int
}

func (it *stringIter) next() tuple {
	if it.i >= len(it.s) {
		return tuple{false, nil, nil}
	}
	idx := it.i
	var r rune
	var n int
	for j, c := range it.s[it.i:] {
		_ = j
		r = c
		n = len(string(c))
		if c == 0xFFFD {
			// invalid encoding decodes to width 1 unless it really is U+FFFD
			if !strings.HasPrefix(it.s[it.i:], "�") {
				n = 1
			}
		}
		break
	}
	it.i += n
	return tuple{true, idx, r}
}

type mapIter struct {
	m *mapv
	i int
}

func (it *mapIter) next() tuple {
	for it.m != nil && it.i < len(it.m.entries) {
		e := it.m.entries[it.i]
		it.i++
		if e.deleted {
			continue
		}
		return tuple{true, e.key, e.val}
	}
	return tuple{false, nil, nil}
}

func (p *Path) rangeIter(x value, t types.Type) iter {
	switch x := x.(type) {
	case *mapv:
		return &mapIter{m: x}
	case string:
		return &stringIter{s: x}
	}
	panic(engineError{fmt.Sprintf("cannot range over %T", x)})
}
