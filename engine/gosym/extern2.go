package gosym

import (
	"go/token"
	"go/types"
	"strings"
	"unicode"
)

const addTok = token.ADD

// Models for library functions that edits of dig may plausibly start to use:
// package sync and sync/atomic under single-threaded semantics (dig has no
// goroutines; a harness never starts one), sort.Slice, and more host-delegated
// functions of package strings on concrete arguments.

// syncState is per-path engine state for sync.Once and sync.Map receivers,
// keyed by the address of the receiver.
type syncState struct {
	once map[*value]bool
	maps map[*value]*mapv
}

func (p *Path) sync() *syncState {
	if p.syncSt == nil {
		p.syncSt = &syncState{once: map[*value]bool{}, maps: map[*value]*mapv{}}
	}
	return p.syncSt
}

var anyType = types.NewInterfaceType(nil, nil).Complete()

func (p *Path) syncMap(recv value) *mapv {
	cell, ok := recv.(*value)
	if !ok || cell == nil {
		panic(p.runtimePanic("invalid memory address or nil pointer dereference"))
	}
	st := p.sync()
	m := st.maps[cell]
	if m == nil {
		m = &mapv{keyT: anyType}
		st.maps[cell] = m
	}
	return m
}

func nop(p *Path, fr *frame, a []value) value { return nil }

func cellOf(p *Path, x value) *value {
	c, ok := x.(*value)
	if !ok || c == nil {
		panic(p.runtimePanic("invalid memory address or nil pointer dereference"))
	}
	return c
}

func init() {
	for _, n := range []string{
		"(*sync.Mutex).Lock", "(*sync.Mutex).Unlock", "(*sync.RWMutex).Lock", "(*sync.RWMutex).Unlock",
		"(*sync.RWMutex).RLock", "(*sync.RWMutex).RUnlock", "(*sync.WaitGroup).Add", "(*sync.WaitGroup).Done", "(*sync.WaitGroup).Wait",
	} {
		externals[n] = nop
	}
	externals["(*sync.Mutex).TryLock"] = func(p *Path, fr *frame, a []value) value { return true }
	externals["(*sync.Once).Do"] = func(p *Path, fr *frame, a []value) value {
		c := cellOf(p, a[0])
		st := p.sync()
		if st.once[c] {
			return nil
		}
		st.once[c] = true
		p.call(fr, 0, a[1], nil)
		return nil
	}
	externals["(*sync.Map).Load"] = func(p *Path, fr *frame, a []value) value {
		if e := p.mapFind(p.syncMap(a[0]), a[1]); e != nil {
			return tuple{e.val, true}
		}
		return tuple{iface{}, false}
	}
	externals["(*sync.Map).Store"] = func(p *Path, fr *frame, a []value) value {
		p.mapInsert(p.syncMap(a[0]), a[1], a[2])
		return nil
	}
	externals["(*sync.Map).LoadOrStore"] = func(p *Path, fr *frame, a []value) value {
		m := p.syncMap(a[0])
		if e := p.mapFind(m, a[1]); e != nil {
			return tuple{e.val, true}
		}
		p.mapInsert(m, a[1], a[2])
		return tuple{a[2], false}
	}
	externals["(*sync.Map).LoadAndDelete"] = func(p *Path, fr *frame, a []value) value {
		m := p.syncMap(a[0])
		if e := p.mapFind(m, a[1]); e != nil {
			v := e.val
			e.deleted = true
			m.live--
			return tuple{v, true}
		}
		return tuple{iface{}, false}
	}
	externals["(*sync.Map).Delete"] = func(p *Path, fr *frame, a []value) value {
		p.mapDelete(p.syncMap(a[0]), a[1])
		return nil
	}
	externals["(*sync.Map).Swap"] = func(p *Path, fr *frame, a []value) value {
		m := p.syncMap(a[0])
		if e := p.mapFind(m, a[1]); e != nil {
			old := e.val
			e.val = a[2]
			return tuple{old, true}
		}
		p.mapInsert(m, a[1], a[2])
		return tuple{iface{}, false}
	}
	externals["(*sync.Map).Range"] = func(p *Path, fr *frame, a []value) value {
		m := p.syncMap(a[0])
		for _, e := range append([]*mapEntry(nil), m.entries...) {
			if e.deleted {
				continue
			}
			if !p.truth(p.call(fr, 0, a[1], []value{e.key, e.val}), "sync.Map.Range") {
				break
			}
		}
		return nil
	}
	externals["(*sync.Map).Clear"] = func(p *Path, fr *frame, a []value) value {
		m := p.syncMap(a[0])
		m.entries, m.live = nil, 0
		return nil
	}
	externals["(*sync.Pool).Get"] = func(p *Path, fr *frame, a []value) value {
		// a pool may always come back empty: call New if set
		c := cellOf(p, a[0])
		st, ok := (*c).(structure)
		if ok {
			for _, f := range st {
				if cl, isCl := f.(*closure); isCl && cl != nil {
					return p.call(fr, 0, cl, nil)
				}
			}
		}
		return iface{}
	}
	externals["(*sync.Pool).Put"] = nop

	// ---- sync/atomic on plain cells
	for _, k := range []string{"Int32", "Int64", "Uint32", "Uint64", "Uintptr"} {
		k := k
		externals["sync/atomic.Load"+k] = func(p *Path, fr *frame, a []value) value { return load(cellOf(p, a[0])) }
		externals["sync/atomic.Store"+k] = func(p *Path, fr *frame, a []value) value { store(cellOf(p, a[0]), a[1]); return nil }
		externals["sync/atomic.Add"+k] = func(p *Path, fr *frame, a []value) value {
			c := cellOf(p, a[0])
			t := fr.fn.Prog.ImportedPackage("sync/atomic").Func("Add" + k).Signature.Results().At(0).Type()
			nv := p.binop(addTok, t, load(c), a[1])
			store(c, nv)
			return nv
		}
		externals["sync/atomic.Swap"+k] = func(p *Path, fr *frame, a []value) value {
			c := cellOf(p, a[0])
			old := load(c)
			store(c, a[1])
			return old
		}
		externals["sync/atomic.CompareAndSwap"+k] = func(p *Path, fr *frame, a []value) value {
			c := cellOf(p, a[0])
			t := fr.fn.Prog.ImportedPackage("sync/atomic").Func("Load" + k).Signature.Results().At(0).Type()
			if p.decide(p.equals(t, load(c), a[1]), "atomic.CompareAndSwap") {
				store(c, a[2])
				return true
			}
			return false
		}
	}
	externals["sync/atomic.LoadPointer"] = func(p *Path, fr *frame, a []value) value { return load(cellOf(p, a[0])) }
	externals["sync/atomic.StorePointer"] = func(p *Path, fr *frame, a []value) value { store(cellOf(p, a[0]), a[1]); return nil }
	externals["sync/atomic.SwapPointer"] = func(p *Path, fr *frame, a []value) value {
		c := cellOf(p, a[0])
		old := load(c)
		store(c, a[1])
		return old
	}
	externals["sync/atomic.CompareAndSwapPointer"] = func(p *Path, fr *frame, a []value) value {
		c := cellOf(p, a[0])
		if load(c) == a[1] {
			store(c, a[2])
			return true
		}
		return false
	}

	// ---- sort.Slice / SliceStable: insertion sort through the caller's less
	sortSlice := func(p *Path, fr *frame, a []value) value {
		xi, ok := a[0].(iface)
		if !ok {
			panic(engineError{"sort.Slice: unexpected argument"})
		}
		xs, ok := xi.v.([]value)
		if !ok {
			if xi.v == nil {
				return nil
			}
			panic(p.reflectPanic("reflect: call of Swapper on non-slice value"))
		}
		less := func(i, j int) bool {
			return p.truth(p.call(fr, 0, a[1], []value{i, j}), "sort.Slice less")
		}
		for i := 1; i < len(xs); i++ {
			for j := i; j > 0 && less(j, j-1); j-- {
				xs[j], xs[j-1] = xs[j-1], xs[j]
			}
		}
		return nil
	}
	externals["sort.Slice"] = sortSlice
	externals["sort.SliceStable"] = sortSlice

	// ---- more of package strings on concrete arguments (host semantics)
	s1 := func(f func(string) string) extFn {
		return func(p *Path, fr *frame, a []value) value { return f(a[0].(string)) }
	}
	s2 := func(f func(string, string) string) extFn {
		return func(p *Path, fr *frame, a []value) value { return f(a[0].(string), a[1].(string)) }
	}
	b2 := func(f func(string, string) bool) extFn {
		return func(p *Path, fr *frame, a []value) value { return f(a[0].(string), a[1].(string)) }
	}
	i2 := func(f func(string, string) int) extFn {
		return func(p *Path, fr *frame, a []value) value { return f(a[0].(string), a[1].(string)) }
	}
	for k, v := range map[string]extFn{
		"strings.ToUpper": s1(strings.ToUpper), "strings.ToTitle": s1(strings.ToTitle), "strings.Title": s1(strings.Title), //nolint:staticcheck
		"strings.TrimLeft": s2(strings.TrimLeft), "strings.TrimRight": s2(strings.TrimRight), "strings.Trim": s2(strings.Trim),
		"strings.EqualFold": b2(strings.EqualFold), "strings.ContainsAny": b2(strings.ContainsAny),
		"strings.Compare": i2(strings.Compare), "strings.IndexAny": i2(strings.IndexAny), "strings.LastIndexAny": i2(strings.LastIndexAny),
		"strings.LastIndexByte": func(p *Path, fr *frame, a []value) value { return strings.LastIndexByte(a[0].(string), a[1].(uint8)) },
		"strings.SplitN": func(p *Path, fr *frame, a []value) value {
			return strVals(strings.SplitN(a[0].(string), a[1].(string), p.concInt(a[2], "SplitN")))
		},
		"strings.SplitAfter": func(p *Path, fr *frame, a []value) value { return strVals(strings.SplitAfter(a[0].(string), a[1].(string))) },
		"strings.Cut": func(p *Path, fr *frame, a []value) value {
			b, c, ok := strings.Cut(a[0].(string), a[1].(string))
			return tuple{b, c, ok}
		},
		"strings.CutPrefix": func(p *Path, fr *frame, a []value) value {
			r, ok := strings.CutPrefix(a[0].(string), a[1].(string))
			return tuple{r, ok}
		},
		"strings.CutSuffix": func(p *Path, fr *frame, a []value) value {
			r, ok := strings.CutSuffix(a[0].(string), a[1].(string))
			return tuple{r, ok}
		},
		"strings.Replace": func(p *Path, fr *frame, a []value) value {
			return strings.Replace(a[0].(string), a[1].(string), a[2].(string), p.concInt(a[3], "Replace"))
		},
		"unicode.IsSpace":  func(p *Path, fr *frame, a []value) value { return unicode.IsSpace(a[0].(int32)) },
		"unicode.IsUpper":  func(p *Path, fr *frame, a []value) value { return unicode.IsUpper(a[0].(int32)) },
		"unicode.IsLower":  func(p *Path, fr *frame, a []value) value { return unicode.IsLower(a[0].(int32)) },
		"unicode.IsLetter": func(p *Path, fr *frame, a []value) value { return unicode.IsLetter(a[0].(int32)) },
		"unicode.IsDigit":  func(p *Path, fr *frame, a []value) value { return unicode.IsDigit(a[0].(int32)) },
		"unicode.ToLower":  func(p *Path, fr *frame, a []value) value { return unicode.ToLower(a[0].(int32)) },
		"unicode.ToUpper":  func(p *Path, fr *frame, a []value) value { return unicode.ToUpper(a[0].(int32)) },
	} {
		externals[k] = v
	}
}

// strings.Builder: the buf field (index 1) holds the bytes; addr is ignored.
func builderBuf(p *Path, recv value) (*value, structure, []value) {
	c := cellOf(p, recv)
	st, ok := (*c).(structure)
	if !ok || len(st) < 2 {
		panic(engineError{"strings.Builder: unexpected layout"})
	}
	buf, _ := st[1].([]value)
	return c, st, buf
}

func init() {
	appendBytes := func(p *Path, recv value, bs []byte) {
		c, st, buf := builderBuf(p, recv)
		nb := append([]value(nil), buf...)
		for _, b := range bs {
			nb = append(nb, b)
		}
		ns := append(structure(nil), st...)
		ns[1] = nb
		*c = ns
	}
	externals["(*strings.Builder).WriteString"] = func(p *Path, fr *frame, a []value) value {
		s := a[1].(string)
		appendBytes(p, a[0], []byte(s))
		return tuple{len(s), iface{}}
	}
	externals["(*strings.Builder).WriteByte"] = func(p *Path, fr *frame, a []value) value {
		appendBytes(p, a[0], []byte{p.concByte(a[1])})
		return iface{}
	}
	externals["(*strings.Builder).WriteRune"] = func(p *Path, fr *frame, a []value) value {
		s := string(a[1].(int32))
		appendBytes(p, a[0], []byte(s))
		return tuple{len(s), iface{}}
	}
	externals["(*strings.Builder).Write"] = func(p *Path, fr *frame, a []value) value {
		xs, _ := a[1].([]value)
		bs := make([]byte, len(xs))
		for i, x := range xs {
			bs[i] = p.concByte(x)
		}
		appendBytes(p, a[0], bs)
		return tuple{len(bs), iface{}}
	}
	externals["(*strings.Builder).String"] = func(p *Path, fr *frame, a []value) value {
		_, _, buf := builderBuf(p, a[0])
		bs := make([]byte, len(buf))
		for i, x := range buf {
			bs[i] = p.concByte(x)
		}
		return string(bs)
	}
	externals["(*strings.Builder).Len"] = func(p *Path, fr *frame, a []value) value {
		_, _, buf := builderBuf(p, a[0])
		return len(buf)
	}
	externals["(*strings.Builder).Grow"] = nop
	externals["(*strings.Builder).Reset"] = func(p *Path, fr *frame, a []value) value {
		c, st, _ := builderBuf(p, a[0])
		ns := append(structure(nil), st...)
		ns[1] = []value(nil)
		*c = ns
		return nil
	}
	externals["internal/abi.NoEscape"] = func(p *Path, fr *frame, a []value) value { return a[0] }
}
