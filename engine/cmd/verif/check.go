package main

import (
	"bufio"
	"bytes"
	"crypto/sha1"
	"encoding/json"
	"flag"
	"fmt"
	"os"
	"os/exec"
	"path/filepath"
	"sort"
	"strconv"
	"strings"
	"time"

	"verif/engine/gosym"
)

// propSpec describes how one property is checked.
type propSpec struct {
	ID       string
	Quick    []string // entry functions
	Thorough []string
	FuelIsViolation bool // exceeding fuel is a candidate violation (C05)
	Anchors  []string // dig functions that must be reached
	Assumptions []string
}

type knownFinding struct {
	Property    string `json:"property"`
	ID          string `json:"id"`
	Status      string `json:"status"` // known | fixed
	Commit      string `json:"commit,omitempty"`
	Clause      string `json:"clause"`
	Signature   string `json:"signature"`
	Description string `json:"description"`
	Reproducer  string `json:"reproducer,omitempty"`
}

type replayFile struct {
	Property string      `json:"property"`
	Entry    string      `json:"entry"`
	Profile  string      `json:"profile"`
	Nondet   []replayND  `json:"nondet"`
	Expect   replayExpect `json:"expect"`
}

type replayND struct {
	Seq   int    `json:"seq"`
	Name  string `json:"name"`
	Kind  string `json:"kind"`
	Value int64  `json:"value"`
}

type replayExpect struct {
	Clause   string   `json:"clause"`
	Kind     string   `json:"kind"`
	Observes []string `json:"observes"`
}

type nativeResult struct {
	File     string   `json:"file"`
	Status   string   `json:"status"`
	Detail   string   `json:"detail"`
	Failed   []string `json:"failed"`
	Observes []string `json:"observes"`
	Witness  []string `json:"witness"`
	Unused   int      `json:"unused"`
}

func buildReplay(prop, entry string, pr gosym.PathResult, clause, kind string) replayFile {
	rf := replayFile{Property: prop, Entry: entry}
	for _, nd := range pr.Nondets {
		v := pr.Model[nd.Var]
		var sv int64
		switch nd.Kind {
		case "bool":
			if v != 0 {
				sv = 1
			}
		case "type":
			sv = int64(v & 0xff)
		default:
			sv = int64(v)
		}
		rf.Nondet = append(rf.Nondet, replayND{Seq: nd.Seq, Name: nd.Name, Kind: nd.Kind, Value: sv})
	}
	rf.Expect = replayExpect{Clause: clause, Kind: kind, Observes: pr.Observes}
	return rf
}

func writeJSON(path string, v interface{}) error {
	b, err := json.MarshalIndent(v, "", " ")
	if err != nil {
		return err
	}
	os.MkdirAll(filepath.Dir(path), 0o755)
	return os.WriteFile(path, append(b, '\n'), 0o644)
}

// runNative executes the replay driver natively on a file or directory.
func runNative(repo, harnessDir, target string, timeout time.Duration) ([]nativeResult, string, error) {
	tmp, err := os.MkdirTemp("", "verif-overlay")
	if err != nil {
		return nil, "", err
	}
	defer os.RemoveAll(tmp)
	repl := map[string]string{}
	files, _ := filepath.Glob(filepath.Join(harnessDir, "zz_verif_*.go"))
	for _, f := range files {
		repl[filepath.Join(repo, filepath.Base(f))] = f
	}
	ovPath := filepath.Join(tmp, "overlay.json")
	if err := writeJSON(ovPath, map[string]interface{}{"Replace": repl}); err != nil {
		return nil, "", err
	}
	cmd := exec.Command("go", "test", "-v", "-tags", "verif", "-vet=off", "-count=1", "-overlay", ovPath,
		"-run", "TestVerifReplay$", "-timeout", fmt.Sprintf("%ds", int(timeout.Seconds())), ".")
	cmd.Dir = repo
	cmd.Env = append(os.Environ(), "VERIF_REPLAY="+target, "GOFLAGS=-mod=mod", "GOPROXY=off", "GOSUMDB=off", "GOTOOLCHAIN=local")
	var out bytes.Buffer
	cmd.Stdout = &out
	cmd.Stderr = &out
	runErr := cmd.Run()
	var res []nativeResult
	sc := bufio.NewScanner(bytes.NewReader(out.Bytes()))
	sc.Buffer(make([]byte, 1<<20), 1<<26)
	for sc.Scan() {
		line := sc.Text()
		if i := strings.Index(line, "VERIF-REPLAY "); i >= 0 {
			var r nativeResult
			if json.Unmarshal([]byte(line[i+len("VERIF-REPLAY "):]), &r) == nil {
				res = append(res, r)
			}
		}
	}
	return res, out.String(), runErr
}

func eqStrings(a, b []string) bool {
	if len(a) != len(b) {
		return false
	}
	for i := range a {
		if a[i] != b[i] {
			return false
		}
	}
	return true
}

func loadKnown(path string) []knownFinding {
	b, err := os.ReadFile(path)
	if err != nil {
		return nil
	}
	var k []knownFinding
	json.Unmarshal(b, &k)
	return k
}

func splitClause(c string) (string, string) {
	if i := strings.Index(c, "|"); i >= 0 {
		return c[:i], c[i+1:]
	}
	return c, ""
}

func check(args []string) int {
	fs := flag.NewFlagSet("check", flag.ExitOnError)
	repo := fs.String("repo", "/repo", "")
	verif := fs.String("verif", "/verif", "")
	tier := fs.String("tier", os.Getenv("VERIF_TIER"), "quick|thorough")
	workers := fs.Int("workers", 16, "")
	solver := fs.String("solver", "z3-new", "")
	budget := fs.Int("budget", 0, "seconds per entry (0 = tier default: quick 900, thorough 7200)")
	validate := fs.Int("validate", -1, "number of passing paths to validate natively (-1 = tier default)")
	cross := fs.String("cross", "", "second solver (z3 | z3-new | cvc5): every entry is explored again with it and must give the same path counts and verdicts")
	evDir := fs.String("evidence-dir", "", "write evidence and replays here instead of <verif>/evidence, <verif>/replays (scratch runs against mutated trees)")
	if len(args) < 1 {
		fmt.Fprintln(os.Stderr, "usage: verif check <property> [--tier quick|thorough]")
		return 2
	}
	prop := args[0]
	fs.Parse(args[1:])
	if *tier == "" {
		*tier = "quick"
	}
	spec, ok := props[prop]
	if !ok {
		fmt.Fprintln(os.Stderr, "unknown property", prop)
		return 2
	}
	seed, _ := strconv.ParseInt(os.Getenv("VERIF_SEED"), 10, 64)
	harnessDir := filepath.Join(*verif, "harness")
	start := time.Now()

	entries := spec.Quick
	if *tier == "thorough" && len(spec.Thorough) > 0 {
		entries = spec.Thorough
	}
	if *budget == 0 {
		*budget = 900
		if *tier == "thorough" {
			*budget = 7200
		}
	}
	nval := *validate
	if nval < 0 {
		nval = 24
		if *tier == "thorough" {
			nval = 200
		}
	}

	replayDir := filepath.Join(*verif, "replays")
	evidenceDir := filepath.Join(*verif, "evidence")
	if *evDir != "" {
		evidenceDir = *evDir
		replayDir = filepath.Join(*evDir, "replays")
	}
	P, err := gosym.Load(*repo, loadOverlay(*repo, harnessDir), "verif")
	if err != nil {
		fmt.Println("INCONCLUSIVE reason=load-failed:", err)
		writeEvidenceFailure(evidenceDir, prop, *tier, seed, start, "load failed: "+err.Error())
		return 2
	}
	loadDur := time.Since(start)

	known := loadKnown(filepath.Join(*verif, "known_findings.json"))
	type agg struct {
		entry string
		res   *gosym.Result
	}
	var all []agg
	inconclusive := []string{}
	var crossRuns, crossDisagree int
	var crossQueries int64
	for _, e := range entries {
		// the budget is per entry: a slow entry must not starve the ones after it
		deadline := time.Now().Add(time.Duration(*budget) * time.Second)
		res, err := P.Explore(gosym.Config{
			Entry: e, Workers: *workers, Solver: *solver, Seed: seed,
			SampleMod: 7, MaxSamples: nval * 4, Deadline: deadline,
			Verbose: os.Getenv("VERIF_VERBOSE") != "",
		})
		if err != nil {
			fmt.Println("INCONCLUSIVE reason=explore-failed:", err)
			writeEvidenceFailure(evidenceDir, prop, *tier, seed, start, err.Error())
			return 2
		}
		all = append(all, agg{e, res})
		if *cross != "" && res.Exhaustive && len(res.Violations) == 0 {
			res2, err2 := P.Explore(gosym.Config{Entry: e, Workers: *workers, Solver: *cross, Seed: seed, Deadline: deadline})
			crossRuns++
			if err2 != nil || !res2.Exhaustive {
				inconclusive = append(inconclusive, fmt.Sprintf("%s: cross-check run with %s did not finish", e, *cross))
			} else if res2.Paths != res.Paths || res2.Done != res.Done || res2.Pruned != res.Pruned || len(res2.Violations) != 0 || len(res2.Fuel) != len(res.Fuel) {
				crossDisagree++
				inconclusive = append(inconclusive, fmt.Sprintf("%s: solvers disagree: %s paths=%d done=%d pruned=%d, %s paths=%d done=%d pruned=%d violations=%d",
					e, *solver, res.Paths, res.Done, res.Pruned, *cross, res2.Paths, res2.Done, res2.Pruned, len(res2.Violations)))
			}
			crossQueries += res2.Queries
		}
		if !res.Exhaustive {
			inconclusive = append(inconclusive, fmt.Sprintf("%s: exploration not exhaustive within budget (paths=%d)", e, res.Paths))
		}
		for _, er := range res.Errors {
			inconclusive = append(inconclusive, fmt.Sprintf("%s: engine error: %s", e, firstLine(er.Detail)))
			break
		}
		if !spec.FuelIsViolation && len(res.Fuel) > 0 {
			inconclusive = append(inconclusive, fmt.Sprintf("%s: fuel exhausted on %d paths: %s", e, len(res.Fuel), res.Fuel[0].Detail))
		}
		if len(res.Panics) > 0 {
			inconclusive = append(inconclusive, fmt.Sprintf("%s: harness panic on %d paths: %s", e, len(res.Panics), firstLine(res.Panics[0].Detail)))
		}
		for _, s := range res.Inconclusive {
			inconclusive = append(inconclusive, e+": "+s)
			break
		}
	}

	// ---- candidate violations: group by (clause, feature), replay one of each natively
	type cand struct {
		entry   string
		clause  string
		feature string
		kind    string
		pr      gosym.PathResult
		count   int
	}
	cands := map[string]*cand{}
	var candKeys []string
	addCand := func(entry, clause, feature, kind string, pr gosym.PathResult) {
		k := clause + "|" + feature
		if c, ok := cands[k]; ok {
			c.count++
			return
		}
		cands[k] = &cand{entry, clause, feature, kind, pr, 1}
		candKeys = append(candKeys, k)
	}
	for _, a := range all {
		for _, pr := range a.res.Violations {
			for _, v := range pr.Violations {
				cl, feat := splitClause(v.Clause)
				p2 := pr
				p2.Model = v.Model
				addCand(a.entry, cl, feat, "assert", p2)
			}
		}
		if spec.FuelIsViolation {
			for _, pr := range a.res.Fuel {
				if pr.Model != nil {
					addCand(a.entry, prop+".term", "fuel="+pr.Detail, "fuel", pr)
				} else {
					inconclusive = append(inconclusive, a.entry+": fuel exhausted without model")
				}
			}
		}
	}
	sort.Strings(candKeys)

	violations := 0
	knownObserved := []string{}
	var out []string
	for _, k := range candKeys {
		c := cands[k]
		if c.pr.Model == nil {
			inconclusive = append(inconclusive, "violation without model for "+k)
			continue
		}
		h := sha1.Sum([]byte(k))
		path := filepath.Join(replayDir, fmt.Sprintf("%s-%x.json", prop, h[:5]))
		rf := buildReplay(prop, c.entry, c.pr, c.clause+"|"+c.feature, c.kind)
		writeJSON(path, rf)
		nres, raw, runErr := runNative(*repo, harnessDir, path, 120*time.Second)
		reproduced := false
		detail := ""
		if len(nres) == 1 {
			for _, f := range nres[0].Failed {
				cl, _ := splitClause(f)
				if cl == c.clause {
					reproduced = true
				}
			}
			detail = nres[0].Status + " " + nres[0].Detail
		} else if c.kind == "fuel" && runErr != nil && (strings.Contains(raw, "stack overflow") || strings.Contains(raw, "goroutine stack exceeds") || strings.Contains(raw, "test timed out")) {
			reproduced = true
			detail = "native run: stack overflow / timeout"
		} else {
			detail = "native run gave no result: " + lastLines(raw, 5)
		}
		if !reproduced {
			inconclusive = append(inconclusive, fmt.Sprintf("SPURIOUS counterexample for %s (%s) not reproduced natively: %s; replay=%s", c.clause, c.feature, detail, path))
			continue
		}
		matched := false
		for _, kf := range known {
			if kf.Status == "known" && kf.Property == prop && kf.Clause == c.clause && kf.Signature == c.feature {
				matched = true
				out = append(out, fmt.Sprintf("KNOWN-FINDING: property=%s %s [%s: clause %s %s; %d paths; replay=%s]", prop, kf.Description, kf.ID, c.clause, c.feature, c.count, path))
				knownObserved = append(knownObserved, kf.ID)
			}
		}
		if !matched {
			violations++
			out = append(out, fmt.Sprintf("VIOLATION property=%s replay=%s clause=%s feature=%q paths=%d", prop, path, c.clause, c.feature, c.count))
		}
	}

	// ---- translator validation: replay a sample of passing paths natively
	validated, mismatches := 0, 0
	var samples []interface{}
	if nval > 0 {
		dir, _ := os.MkdirTemp("", "verif-validate")
		defer os.RemoveAll(dir)
		n := 0
		expect := map[string]gosym.PathResult{}
		for _, a := range all {
			per := nval / len(all)
			if per < 1 {
				per = 1
			}
			ss := a.res.Samples
			// spread the picks over the sample list
			step := 1
			if len(ss) > per {
				step = len(ss) / per
			}
			for i := 0; i < len(ss) && n < nval; i += step {
				pr := ss[i]
				f := filepath.Join(dir, fmt.Sprintf("s%04d.json", n))
				writeJSON(f, buildReplay(prop, a.entry, pr, "", "pass"))
				expect[f] = pr
				n++
			}
		}
		if n > 0 {
			nres, raw, _ := runNative(*repo, harnessDir, dir, 300*time.Second)
			if len(nres) != n {
				inconclusive = append(inconclusive, fmt.Sprintf("translator validation: native driver returned %d of %d results: %s", len(nres), n, lastLines(raw, 8)))
			}
			for _, nr := range nres {
				pr := expect[nr.File]
				okk := nr.Status == "done" && len(nr.Failed) == 0 && nr.Unused == 0 && eqStrings(nr.Observes, pr.Observes)
				if okk {
					validated++
				} else {
					mismatches++
					keep := filepath.Join(replayDir, fmt.Sprintf("%s-mismatch-%d.json", prop, mismatches))
					if b, err := os.ReadFile(nr.File); err == nil {
						os.MkdirAll(replayDir, 0o755)
						os.WriteFile(keep, b, 0o644)
					}
					inconclusive = append(inconclusive, fmt.Sprintf("translator validation mismatch (%s): native status=%s %s failed=%v unused=%d\n   native obs=%v\n   symbolic obs=%v", keep, nr.Status, nr.Detail, nr.Failed, nr.Unused, nr.Observes, pr.Observes))
				}
				if len(samples) < 3 && okk {
					rf := buildReplay(prop, "", pr, "", "pass")
					var inputs []string
					for _, nd := range rf.Nondet {
						inputs = append(inputs, fmt.Sprintf("%s=%d", nd.Name, nd.Value))
					}
					samples = append(samples, map[string]interface{}{"inputs_from_solver_model": inputs, "observations_symbolic_equal_native": nr.Observes, "decisions": len(pr.Decisions)})
				}
			}
		}
	}

	// ---- witnesses and anchors
	var paths, done, pruned, forks, steps, queries, az3, arew, witnessPaths int64
	var solverWall, maxQ time.Duration
	witnesses := map[string]int64{}
	fnc := map[string]int64{}
	exhaustive := true
	for _, a := range all {
		r := a.res
		paths += r.Paths
		done += r.Done
		pruned += r.Pruned
		forks += r.Forks
		steps += r.Steps
		queries += r.Queries
		az3 += r.AssertsZ3
		arew += r.AssertsRewr
		witnessPaths += r.WitnessPaths
		solverWall += r.SolverWall
		if r.MaxQuery > maxQ {
			maxQ = r.MaxQuery
		}
		for k, v := range r.Witnesses {
			witnesses[k] += v
		}
		for k, v := range r.FnCounts {
			fnc[k] += v
		}
		exhaustive = exhaustive && r.Exhaustive
	}
	var unreached []string
	for _, a := range spec.Anchors {
		if fnc[a] == 0 {
			unreached = append(unreached, a)
		}
	}
	if len(unreached) > 0 {
		inconclusive = append(inconclusive, "anchor functions never executed (vacuity): "+strings.Join(unreached, ", "))
	}
	for _, w := range requiredWitnesses[prop] {
		if witnesses[w] == 0 {
			inconclusive = append(inconclusive, "witness never reached (vacuity): "+w)
		}
	}
	if len(samples) == 0 {
		for _, a := range all {
			for i, s := range a.res.Samples {
				if i < 2 {
					samples = append(samples, map[string]interface{}{"entry": a.entry, "observations": s.Observes, "decisions": len(s.Decisions)})
				}
			}
		}
	}
	if len(samples) == 0 {
		samples = append(samples, "no completed path")
	}

	digFns := map[string]int64{}
	for k, v := range fnc {
		if strings.Contains(k, "go.uber.org/dig") && !strings.Contains(k, "verif") && !strings.Contains(k, ".v") {
			digFns[k] = v
		}
	}
	ev := map[string]interface{}{
		"property_id": prop,
		"tier":        *tier,
		"seed":        seed,
		"level":       "model_checking",
		"wall_s":      time.Since(start).Seconds(),
		"violations":  violations,
		"coverage": map[string]interface{}{
			"states":                        paths,
			"transitions":                   forks,
			"traces_validated_against_impl": validated,
			"evaluations":                   paths,
			"distinct_nontrivial":           witnessPaths,
			"rule":                          "one evaluation = one feasible path of the harness entry through the real dig SSA (a class of inputs dig cannot tell apart), enumerated by solver feasibility checks at every symbolic branch; non-trivial = the path reached at least one declared witness situation; distinct by decision string",
			"samples":                       samples,
			"exhaustive":                    exhaustive && len(inconclusive) == 0,
			"paths_completed":               done,
			"paths_pruned_by_assumption":    pruned,
			"ssa_steps":                     steps,
			"entries":                       entries,
			"witnesses":                     witnesses,
			"functions_encoded":             digFns,
			"functions_encoded_count":       len(digFns),
			"anchors_unreached":             unreached,
			"queries": map[string]interface{}{
				"solver_queries":                queries,
				"assertions_discharged_by_z3":   az3,
				"assertions_discharged_by_rewriting": arew,
			},
			"solver":               *solver,
			"cross_check": map[string]interface{}{
				"second_solver": *cross, "entries_re_explored": crossRuns, "disagreements": crossDisagree, "second_solver_queries": crossQueries,
				"rule": "an entry is explored again from scratch with the second solver; every feasibility verdict shapes the path tree, so equal counts of feasible / completed / pruned paths and no violation mean the two solvers agreed on every query that mattered",
			},
			"solver_wall_s":        solverWall.Seconds(),
			"max_query_ms":         float64(maxQ.Microseconds()) / 1000,
			"load_s":               loadDur.Seconds(),
			"bounds":               spec.boundsText(*tier),
			"stubs":                "S1 map order=insertion; S2 reflect model; S3 fmt model; S4 strings/strconv/unicode host functions on concrete strings; S5/S13 sort models; S6 errors.Is/As model; S7 rand.Perm identity; S8 time fixed; S9 runtime.FuncForPC synthetic; S10 runtime panics; S11 package init; S12 sync/atomic single-threaded; fuel: depth 600, 2e7 steps/path, 64 values/concretise",
			"known_findings_observed": knownObserved,
			"translator_validation_mismatches": mismatches,
			"inconclusive":         inconclusive,
		},
		"assumptions": spec.Assumptions,
	}
	writeJSON(filepath.Join(evidenceDir, prop+".json"), ev)

	for _, l := range out {
		fmt.Println(l)
	}
	fmt.Printf("SUMMARY property=%s tier=%s paths=%d done=%d pruned=%d forks=%d queries=%d z3_asserts=%d validated=%d violations=%d known=%d exhaustive=%v wall=%.1fs\n",
		prop, *tier, paths, done, pruned, forks, queries, az3, validated, violations, len(knownObserved), exhaustive, time.Since(start).Seconds())
	if violations > 0 {
		return 1
	}
	if len(inconclusive) > 0 {
		for _, s := range inconclusive {
			fmt.Println("INCONCLUSIVE reason=" + s)
		}
		return 2
	}
	return 0
}

func firstLine(s string) string {
	if i := strings.Index(s, "\n"); i >= 0 {
		return s[:i]
	}
	return s
}

func lastLines(s string, n int) string {
	ls := strings.Split(strings.TrimSpace(s), "\n")
	if len(ls) > n {
		ls = ls[len(ls)-n:]
	}
	return strings.Join(ls, " / ")
}

func writeEvidenceFailure(evidenceDir, prop, tier string, seed int64, start time.Time, why string) {
	writeJSON(filepath.Join(evidenceDir, prop+".json"), map[string]interface{}{
		"property_id": prop, "tier": tier, "seed": seed, "level": "other",
		"wall_s":   time.Since(start).Seconds(),
		"coverage": map[string]interface{}{"explanation": "check could not run: " + why},
	})
}

func replayCmd(args []string) int {
	fs := flag.NewFlagSet("replay", flag.ExitOnError)
	repo := fs.String("repo", "/repo", "")
	verif := fs.String("verif", "/verif", "")
	if len(args) < 1 {
		fmt.Fprintln(os.Stderr, "usage: verif replay <file>")
		return 2
	}
	path := args[0]
	fs.Parse(args[1:])
	nres, raw, _ := runNative(*repo, filepath.Join(*verif, "harness"), path, 120*time.Second)
	if len(nres) == 0 {
		fmt.Println("NO-RESULT", lastLines(raw, 10))
		return 2
	}
	var rf replayFile
	if b, err := os.ReadFile(path); err == nil {
		json.Unmarshal(b, &rf)
	}
	want, _ := splitClause(rf.Expect.Clause)
	for _, r := range nres {
		fmt.Printf("status=%s detail=%q failed=%v observes=%v\n", r.Status, r.Detail, r.Failed, r.Observes)
		for _, f := range r.Failed {
			cl, _ := splitClause(f)
			if cl == want {
				fmt.Println("REPRODUCED", f)
				return 1
			}
		}
	}
	fmt.Println("NOT-REPRODUCED")
	return 0
}
