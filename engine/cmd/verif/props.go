package main

// Registry of properties: entry points per tier, anchors, witnesses, bounds.

var props = map[string]*propSpec{}

var requiredWitnesses = map[string][]string{}

var boundsTexts = map[string][2]string{}

func (s *propSpec) boundsText(tier string) string {
	b := boundsTexts[s.ID]
	if tier == "thorough" && b[1] != "" {
		return b[1]
	}
	return b[0]
}

func reg(id string, quick, thorough []string, anchors, witnesses []string, boundsQ, boundsT string, assumptions ...string) *propSpec {
	s := &propSpec{ID: id, Quick: quick, Thorough: thorough, Anchors: anchors, Assumptions: assumptions}
	props[id] = s
	requiredWitnesses[id] = witnesses
	boundsTexts[id] = [2]string{boundsQ, boundsT}
	return s
}

const digp = "go.uber.org/dig."

func init() {
	reg("C05", []string{"verifC05u"}, []string{"verifC05u"},
		[]string{"go.uber.org/dig/internal/graph.IsAcyclic", "go.uber.org/dig/internal/graph.isAcyclic"},
		[]string{"acyclic", "cyclic", "cycle-len>=3"},
		"unit: every digraph with n<=4 nodes (symbolic adjacency matrix)", "",
		"S1-S9 stubs; the graph is presented through a harness implementation of graph.Graph").FuelIsViolation = true
	reg("C01", []string{"verifC01"}, nil,
		[]string{"(go.uber.org/dig.paramSingle).Build", "(*go.uber.org/dig.constructorNode).Call", "(*go.uber.org/dig.Scope).Invoke"},
		[]string{"invoke-ok", "cross-scope-arg", "optional-zero", "optional-present", "bystander"},
		"2 constructors (<=1 param, 1 result), <=2 scopes, param objects, names {\"\",a}, optional, Export, 1 Invoke with <=2 params", "")
}
