package main

// Registry of properties: entry points per tier, anchors, witnesses, bounds.

var props = map[string]*propSpec{}

var requiredWitnesses = map[string][]string{}

var boundsTexts = map[string][2]string{}

func (s *propSpec) boundsText(tier string) string {
	b := boundsTexts[s.ID]
	if tier == "thorough" && b[1] != "" {
		return b[1]
	}
	return b[0]
}

func reg(id string, quick, thorough []string, anchors, witnesses []string, boundsQ, boundsT string, assumptions ...string) *propSpec {
	s := &propSpec{ID: id, Quick: quick, Thorough: thorough, Anchors: anchors, Assumptions: assumptions}
	props[id] = s
	requiredWitnesses[id] = witnesses
	boundsTexts[id] = [2]string{boundsQ, boundsT}
	return s
}

const digp = "go.uber.org/dig."

func init() {
	d := func(names ...string) []string {
		var out []string
		for _, n := range names {
			out = append(out, n)
		}
		return out
	}
	const (
		psBuild   = "(go.uber.org/dig.paramSingle).Build"
		poBuild   = "(go.uber.org/dig.paramObject).Build"
		plBuild   = "(go.uber.org/dig.paramList).BuildList"
		pgBuild   = "(go.uber.org/dig.paramGroupedSlice).Build"
		cnCall    = "(*go.uber.org/dig.constructorNode).Call"
		dnCall    = "(*go.uber.org/dig.decoratorNode).Call"
		invoke    = "(*go.uber.org/dig.Scope).Invoke"
		provide   = "(*go.uber.org/dig.Scope).provide"
		decorate  = "(*go.uber.org/dig.Scope).Decorate"
		extract   = "(go.uber.org/dig.resultList).ExtractList"
		rsExtract = "(go.uber.org/dig.resultSingle).Extract"
		roExtract = "(go.uber.org/dig.resultObject).Extract"
		rgExtract = "(go.uber.org/dig.resultGrouped).Extract"
		isAcyclic = "go.uber.org/dig/internal/graph.IsAcyclic"
	)
	stubs := "stubs S1-S9 of DESIGN.md §3.5 (map order = insertion order, reflect/fmt models, rand.Perm = identity, fixed time, synthetic runtime.FuncForPC)"
	uf := "user functions are reflect.MakeFunc values over symbolic plain types (*vT with a symbolic identity among 16) unless stated; histories are the stated skeletons only"

	reg("C01", d("verifC01a", "verifC01b", "verifC01c", "verifC01d", "verifC01e", "verifC01f", "verifC01g", "verifC01h", "verifC01i"), d("verifC01a", "verifC01b", "verifC01c", "verifC01d", "verifC01e", "verifC01f", "verifC01g", "verifC01h", "verifC01i", "verifT01a"),
		d(psBuild, poBuild, plBuild, cnCall, extract, rsExtract, roExtract, invoke, dnCall),
		d("invoke-ok", "cross-scope-arg", "optional-zero", "optional-present", "bystander", "decorated-arg", "invoke-ok-2deps"),
		"4 skeletons: (a) 2 ctors <=1 param, param objects, optional, <=2 scopes, 1 Invoke; (b) 2 ctors positional, Export, <=2 scopes, 2 Invokes; (c) 1 ctor with <=2 results, result objects, names {\"\",a}, Invoke with <=2 params; (d) 3 registrations incl. <=1 decorator, <=2 scopes; (e) 1 ctor + 2 decorators (two keys / extra dependency / no input) at free levels of <=2 scopes, 2 Invokes; (f) 2 ctors with Export and optional object fields over <=2 scopes; (g) 3 parameterless ctors + 1 decorator with an extra dependency over <=2 scopes (a descendant shadowing that dependency); (h) 2 parameterless ctors with Export and names {\"\",a} over <=2 scopes, duplicates allowed (rejected ones must not supply), 2 Invokes; (i) 1 ctor (Export free), 2 Invokes from free scopes, 1 more ctor possibly of the same key in another scope, a third Invoke", "the quick entries, each explored a second time with z3 4.8.12 (--cross z3), 200 paths validated natively, plus (T01a) 3 ctors, Export, <=2 scopes",
		stubs, uf, "profiles b-d assume the Invoke has no missing dependency; produced single keys assumed pairwise distinct (duplicates are C09)")
	reg("C02", d("verifC02a", "verifC02b", "verifC02c", "verifC02d", "verifC02e", "verifC02f", "verifC02g", "verifC02h"), d("verifC02a", "verifC02b", "verifC02c", "verifC02d", "verifC02e", "verifC02f", "verifC02g", "verifC02h", "verifT02a"),
		d(cnCall, dnCall, psBuild, pgBuild),
		d("invoke-ok", "decorated-arg", "group-nonempty", "cross-scope-arg", "invoke-on-cycle", "reentered"),
		"5 skeletons: (a) 2 ctors, Export, <=2 scopes (also created late), 2 Invokes; (b) 3 registrations incl. <=1 decorator, 2 Invokes; (c) 2 ctors with group results/params, 2 Invokes; (d) 3 registrations incl. a decorator with an extra dependency or a second key; (e) 2 registrations incl. <=1 decorator whose bodies may re-enter the container (Invoke of their own result key from their own scope) on their first execution, 2 Invokes; (f) 2 ctors + 1 decorator with group and single edges (group feeders whose dependency is decorated by a consumer of the group); (g) feeder + group decorator, Invoke, one more feeder, Invoke; (h) 1 ctor, Invoke, a second ctor with <=2 results (Export free, possibly duplicating a key through Export), 2 more Invokes", "the quick entries, each explored a second time with z3 4.8.12 (--cross z3), 200 paths validated natively, plus (T02a) 3 Invokes over late scopes",
		stubs, uf, "no missing dependencies; distinct single keys; no failing user functions")
	reg("C03", d("verifC03a", "verifC03b", "verifC03c", "verifC03d", "verifC03e", "verifC03f", "verifC03g"), d("verifC03a", "verifC03b", "verifC03c", "verifC03d", "verifC03e", "verifC03f", "verifC03g"),
		d(cnCall, invoke, provide, "go.uber.org/dig.Visualize", "(*go.uber.org/dig.Scope).String"),
		d("invoke-ok", "bystander", "missing", "soft-group-arg", "optional-zero"),
		"(a) 3 ctors <=1 param over <=2 scopes, String+Visualize after every registration, 1 Invoke; (b) 2 ctors with optional / group / soft group params, 1 Invoke; (c) group feeders and group/single decorators (two keys, extra dependency, no input) over <=2 scopes; (d) 1 ctor + 2 decorators at free levels of <=2 scopes, 2 Invokes; (e) 2 ctors with Export and optional object fields over <=2 scopes; (f) 2 group feeders provided As(vI0) / As(vI0,vI1), 2 Invokes consuming one of the interface groups; (g) a feeder, a group decorator in the root and one in the child (consuming the group or not), consumer (hard or soft) in a free scope", "the quick entries, each explored a second time with z3 4.8.12 (--cross z3), 200 paths validated natively",
		stubs, uf)
	reg("C04", d("verifC04a", "verifC04b", "verifC04c", "verifC04d", "verifC04e", "verifC04f"), d("verifC04a", "verifC04b", "verifC04c", "verifC04d", "verifC04e", "verifC04f"),
		d("go.uber.org/dig.findMissingDependencies", "go.uber.org/dig.shallowCheckDependencies", "go.uber.org/dig.newErrMissingTypes", "go.uber.org/dig.isFieldOptional", psBuild),
		d("missing", "optional-zero", "optional-present", "invoke-ok"),
		"(a) 2 ctors, <=2 scopes, optional fields; (b) chain of 3 ctors in one scope, every edge optional or required, 1 Invoke; (c) 2 ctors with Export over <=2 scopes; (d) 1 ctor, Invoke, 1 more ctor, the Invoke again (optional fields); (e) ctor, ctor, decorator with an extra dependency, ctor - each may return an error - below an optional consumer (assumed: all four accepted, the decorated key has a visible constructor, the decorator's own dependencies are not missing); (f) 2 ctors with nested parameter objects (depth 2), optional fields", "the quick entries, each explored a second time with z3 4.8.12 (--cross z3), 200 paths validated natively",
		stubs, uf)
	reg("C05", d("verifC05u", "verifC05sa", "verifC05sb", "verifC05sc", "verifC05sd", "verifC05se", "verifC05sf", "verifC05sh", "verifC05si"), d("verifC05u", "verifC05sa", "verifC05sb", "verifC05sc", "verifC05sd", "verifC05se", "verifC05sf", "verifC05sh", "verifC05si", "verifT05a"),
		d(isAcyclic, "go.uber.org/dig/internal/graph.isAcyclic", "(*go.uber.org/dig.graphHolder).EdgesFrom", provide, invoke, "(*go.uber.org/dig.graphHolder).Rollback"),
		d("acyclic", "cyclic", "cycle-len>=3", "cycle-rejected", "cycle-deferred", "invoke-on-cycle", "reentered", "invoke-on-static-cycle"),
		"unit: every digraph with n<=4 nodes (symbolic adjacency matrix); system: (sa) 2 ctors with 1 param/1 result of symbolic type, Export, <=2 scopes; (sb) same with DeferAcyclicVerification and 2 Invokes; (sc) group and optional edges, defer free; (sd) 2 ctors over <=3 scopes of free shape (cycles visible only from a grandchild); (se) 2 registrations incl. <=1 decorator whose bodies may re-enter the container, defer free, <=2 scopes; (sf) DeferAcyclicVerification: 1 ctor, Invoke, 1 more ctor (optional / group edges), Invoke again; (sh) 2 ctors with value-group parameters and Export over <=2 scopes; (si) 4 ctors alternating between the root and a child created at any time, the first with 2 (group) parameters: the parent graph holds 3 nodes when the child is created", "the quick entries, each explored a second time with z3 4.8.12 (--cross z3), 200 paths validated natively, plus (T05a) 3 ctors, Export, scopes created at any time",
		stubs, uf, "exceeding 600 frames / 2e7 steps counts as non-termination and is replayed natively")
	props["C05"].FuelIsViolation = true
	reg("C06", d("verifC06a", "verifC06b", "verifC06c", "verifC06d", "verifC06e", "verifC06f"), d("verifC06a", "verifC06b", "verifC06c", "verifC06d", "verifC06e", "verifC06f"),
		d(provide, "(*go.uber.org/dig.graphHolder).Rollback", decorate, "(*go.uber.org/dig.provideOptions).Validate"),
		d("after-rejection-compared", "rejected-cycle", "rejected-other", "rejected-bad-0", "rejected-bad-6", "rejected-decorator"),
		"differential: container A gets a rejected candidate at a free position, container B does not; (a) candidate = generated ctor rejected for a cycle or duplicate, <=2 scopes, Export; (b) candidate = one of 12 malformed inputs or a duplicate decorator; (c) candidate = a decorator with two keys / an extra dependency / no input rejected because one of its keys is already decorated; then 1 registration and 1 Invoke compared; (d) 2 accepted ctors over <=2 scopes, the cycle-rejected candidate, 1 more ctor, Invoke; (e) group feeders and a candidate that feeds the group it consumes; (f) a candidate with <=2 results in result objects (possibly the same group key twice)", "the quick entries, each explored a second time with z3 4.8.12 (--cross z3), 200 paths validated natively",
		stubs, uf)
	reg("C07", d("verifC07a", "verifC07b", "verifC07c", "verifC07d", "verifC07e"), d("verifC07a", "verifC07b", "verifC07c", "verifC07d", "verifC07e", "verifT07a"),
		d(cnCall, dnCall, extract, invoke),
		d("user-failure", "ctor-error", "panic-recovered", "panic-propagated", "retried", "decorated-arg"),
		"(a) 2 ctors, each execution may succeed / return an error / panic, RecoverFromPanics free, 2 Invokes; (b) 2 registrations incl. <=1 decorator that may fail, 2 Invokes; (c) the same with the error result first or last in the signature; (d) ctor, ctor, decorator with an extra dependency, ctor below an optional consumer, each may return an error (assumed: all four accepted, the decorated key has a visible constructor, the decorator's own dependencies are not missing); (e) error results declared as the concrete error type vErrCode (its zero value is a non-nil error), 2 Invokes", "the quick entries, each explored a second time with z3 4.8.12 (--cross z3), 200 paths validated natively, plus (T07a) 3 registrations incl. a decorator, all fault kinds",
		stubs, uf)
	reg("C08", d("verifC08a", "verifC08b", "verifC08c", "verifC08d"), d("verifC08a", "verifC08b", "verifC08c", "verifC08d"),
		d("(*go.uber.org/dig.Scope).Scope", "(*go.uber.org/dig.Scope).storesToRoot", provide, psBuild, "(*go.uber.org/dig.Scope).newGraphNode"),
		d("cross-scope-arg", "missing", "invoke-ok", "bystander"),
		"(a) 2 ctors with free scope and Export over <=3 scopes of free shape (created before or after the Provides), 1 Invoke from a free scope; (b) 1 ctor, 2 Invokes, a second ctor (possibly for the same key, in another scope), a third Invoke; (c) 1 ctor (Export free) over <=3 scopes created at any time, 2 Invokes with an optional object field; (d) 2 group feeders with flatten results of length 0-2 over <=2 scopes, group contents checked", "the quick entries, each explored a second time with z3 4.8.12 (--cross z3), 200 paths validated natively",
		stubs, uf)
	reg("C09", d("verifC09a", "verifC09b", "verifC09c", "verifC09d", "verifC09e"), d("verifC09a", "verifC09b", "verifC09c", "verifC09d", "verifC09e", "verifT09a"),
		d("(go.uber.org/dig.connectionVisitor).checkKey", "go.uber.org/dig.newResultSingle", rsExtract, "go.uber.org/dig.newParamObjectField"),
		d("duplicate-key", "invoke-ok", "missing"),
		"(a) 2 ctors with <=2 results, names {\"\",a} via option or result-object tag; (b) As(vI0) / As(vI0,vI1) on concrete *vA results, groups, consumers asking *vA / vI0 / vI1; (c) 2 single-result ctors with Export over <=2 scopes (duplicates through Export); (d) 2 ctors with group and single edges (a feeder rejected for a cycle next to accepted feeders), group contents checked; (e) 2 ctors with result objects and As(vI0) / As(vI0,vI1) over <=2 scopes (the same Out struct type with different As lists)", "the quick entries, each explored a second time with z3 4.8.12 (--cross z3), 200 paths validated natively, plus (T09a) names, result objects, Export over 2 scopes",
		stubs, uf)
	reg("C10", d("verifC10a", "verifC10b", "verifC10c", "verifC10d", "verifC10e", "verifC10f", "verifC10g"), d("verifC10a", "verifC10b", "verifC10c", "verifC10d", "verifC10e", "verifC10f", "verifC10g"),
		d(pgBuild, "(go.uber.org/dig.paramGroupedSlice).callGroupProviders", rgExtract, "go.uber.org/dig.parseGroupString", "(*go.uber.org/dig.Scope).getValueGroup"),
		d("group-nonempty", "invoke-ok", "bystander"),
		"(a) 2 feeders placed freely in <=2 scopes with Export, 1 consumer from a free scope; (b) flatten results of length 0-2, a feeder added between two requests; (c) members provided As(vI0) / As(vI0,vI1), consumers of []*vA / []vI0 / []vI1, 2 Invokes; (d) 2 feeders with flatten results of length 0-2 placed freely in <=2 scopes; (e) 2 feeders and a consumer over the group names \"g\", \"g \", \"G\", \"gg\"; (f) ctor, ctor with <=2 results (single and group), decorator with an extra dependency (a feeder re-entered through a decorator of its dependency); (g) a root feeder with a dependency, a root and a child supplier of that dependency, consumer in a free scope", "the quick entries, each explored a second time with z3 4.8.12 (--cross z3), 200 paths validated natively",
		stubs, uf, "group order is compared as a multiset")
	reg("C11", d("verifC11a", "verifC11b", "verifC11c", "verifC11d", "verifC11e", "verifC11f", "verifC11h", "verifC11i"), d("verifC11a", "verifC11b", "verifC11c", "verifC11d", "verifC11e", "verifC11f", "verifC11h", "verifC11i"),
		d(pgBuild, poBuild, "go.uber.org/dig.parseGroupString"),
		d("soft-group-arg", "soft-group-nonempty", "invoke-ok"),
		"(a) 1 ctor with <=2 results (group and single), consumer object with 2 fields in free order (soft group, hard dependency); (b) 2 feeders, 2 Invokes (the first may run feeders, the second consumes softly); (c) consumer object with 3 fields (soft groups and hard dependencies in free order); (d) 2 feeders placed freely in <=2 scopes, 2 Invokes from free scopes (soft consumer in a child that has feeders of its own); (e) 2 registrations (feeders or hard / soft consumers of the group) before a soft consumer is invoked; (f) feeder, decorator, two-key decorator (group first; rejected when its second key is already decorated), soft consumer; (h) 2 ctors in the root, a value decorator with an extra soft value-group parameter in the root and a free-shape plain decorator in a child (possibly decorating the group), every registration accepted, 1 Invoke from a free scope; (i) as (a) with nested parameter objects: hard fields may sit in a nested dig.In declared before or after the plain fields, soft fields in the outer object only", "the quick entries, each explored a second time with z3 4.8.12 (--cross z3), 200 paths validated natively",
		stubs, uf)
	reg("C12", d("verifC12a", "verifC12b", "verifC12c", "verifC12d", "verifC12e", "verifC12g", "verifC12h"), d("verifC12a", "verifC12b", "verifC12c", "verifC12d", "verifC12e", "verifC12g", "verifC12h"),
		d(dnCall, "(go.uber.org/dig.paramSingle).buildWithDecorators", decorate, "go.uber.org/dig.findResultKeys"),
		d("decorated-arg", "invoke-ok", "provide-rejected", "decorated-group"),
		"2-3 registrations of which <=2 decorators at free levels of <=2 scopes, 2 Invokes from free scopes; decorators with an extra dependency, a second key or no input; two decorators of one key at two levels resolved twice; (d) 1 ctor + 1 decorator that may fail or panic (RecoverFromPanics free), 2 Invokes; (e) ctor, decorator, ctor of possibly the same key over <=2 scopes, 2 Invokes; (g) a decorator in the root, a decorator and a (possibly exported) constructor in the child, groups and single keys, extra dependencies / second keys / no input; (h) a decorator, Invoke, a second decorator, Invoke again, over a chain of <=3 scopes (groups and single keys)", "the quick entries, each explored a second time with z3 4.8.12 (--cross z3), 200 paths validated natively",
		stubs, uf)
	reg("C13", d("verifC13a", "verifC13b", "verifC13c", "verifC13d", "verifC13e", "verifC13f"), d("verifC13a", "verifC13b", "verifC13c", "verifC13d", "verifC13e", "verifC13f", "verifT13a"),
		d("go.uber.org/dig.RootCause", "go.uber.org/dig.IsCycleDetected", invoke, cnCall, "(go.uber.org/dig.errConstructorFailed).Unwrap"),
		d("invoked-fn-error", "ctor-error", "panic-recovered", "panic-propagated", "missing"),
		"(a) 2 ctors + invoked function, each may fail by error or panic, param objects, <=2 scopes, RecoverFromPanics free; (b) Invoke, a registration, Invoke again (dig-originated failures that must not stick); (c) 1 ctor or decorator in a free scope of <=2, every combination of RecoverFromPanics and DeferAcyclicVerification; (d) ctor + decorator with callbacks registered, all fault kinds; (e) error results declared as the concrete error type vErrCode, first or last; (f) ctor, ctor, decorator with an extra dependency, ctor below an optional consumer, each may return an error (same assumptions as C07d)", "the quick entries, each explored a second time with z3 4.8.12 (--cross z3), 200 paths validated natively, plus (T13a) 3 ctors over 2 scopes",
		stubs, uf)
	reg("C14", d("verifC14a", "verifC14b", "verifC14c"), d("verifC14a", "verifC14b", "verifC14c"),
		d(provide, decorate, invoke, "go.uber.org/dig.newParamObjectField", "go.uber.org/dig.newResultObjectField", "go.uber.org/dig.parseGroupString", "go.uber.org/dig.isFieldOptional", "(*go.uber.org/dig.provideOptions).Validate", "go.uber.org/dig.Visualize"),
		d("input-accepted", "input-rejected", "visualize-error"),
		"one input from a grammar of 40 value/function shapes x 27 struct tags x 7 field types x 21 option sets, passed to Provide / Decorate / Invoke before or after 1 registration, then String, Visualize, probe Invokes consuming the keys the input may have registered, and 1 Invoke; twin container without the input; an accepted feeder of group g is registered first in both; (b),(c) 1-2 generated registrations incl. value-group decorators that fail (missing dependency or error), String/Visualize after every call and Visualize(VisualizeError) after every failed Invoke", "the quick entries, each explored a second time with z3 4.8.12 (--cross z3), 200 paths validated natively",
		stubs, "types of the grammar are concrete (declared or reflect.StructOf/FuncOf)")
	reg("C15", d("verifC15a", "verifC15b", "verifC15c", "verifC15d", "verifC15e", "verifC15f"), d("verifC15a", "verifC15b", "verifC15c", "verifC15d", "verifC15e", "verifC15f"),
		d("go.uber.org/dig.newParamObject", "go.uber.org/dig.newResultObject", "go.uber.org/dig.newParamList", poBuild, roExtract),
		d("encoding-differs", "invoke-ok"),
		"differential: the same history with every function re-encoded (positional <-> object field at depth 1/2, option <-> tag, +variadic); (a) 1 ctor + Invoke with names/optional; (b) 1 ctor with 2 results and groups; (c) 1 ctor with 2 results and names {\"\",a}, Invoke with 2 params; (d) 1 ctor with <=2 parameters and names {\"\",a} that may depend on its own result (cycle verdicts of every encoding); (e) positional / embed-first / unexported-field-before-embed spellings of one constructor (ignore-unexported); (f) 2 parameterless ctors that may fail, Invoke with 2 parameters re-encoded uniformly (positional / object / nested object): the same functions run", "the quick entries, each explored a second time with z3 4.8.12 (--cross z3), 200 paths validated natively",
		stubs, uf)
	reg("C16", d("verifC16a", "verifC16f", "verifC16g"), d("verifC16a", "verifC16b", "verifC16f", "verifC16g", "verifC16e", "verifC16c", "verifC16d", "verifC16h"),
		d("(*go.uber.org/dig.Scope).Scope", "(*go.uber.org/dig.Scope).newGraphNode", provide, invoke),
		d("permuted", "scopes-moved", "order-compared-ok"),
		"differential over 3 containers: A as drawn, B with all scopes created first and the registrations permuted, C with DeferAcyclicVerification; (a) 2 registrations with group params, <=2 scopes; (b) 3 registrations incl. a decorator; (e) 3 registrations with group and single edges over <=2 scopes created first (order only); (f) 3 ctors over <=3 scopes created at any time, order kept (scope timing only); (g) 2 parameterless ctors with Export over <=2 scopes (exported and private registrations of one key in either order); (h) 4 ctors alternating between the root and a child created at any time, the first with 2 (group) parameters; acceptance of the block compared in both directions [(b), (e) and (h) are run in the thorough tier only: a quick check has to finish well inside 15 minutes, (e) needs about 6 and (h) about 9]", "(a),(b) plus (c) = (e) with scopes created at any time and (d) = (f) with every registration order",
		stubs, uf, "histories whose registrations are all accepted in A")
	reg("C17", d("verifC17a", "verifC17b", "verifC17c", "verifC17d", "verifC17e"), d("verifC17a", "verifC17b", "verifC17c", "verifC17d", "verifC17e"),
		d("go.uber.org/dig.dryInvoker", cnCall, invoke),
		d("dry-compared", "invoke-ok", "missing", "provide-rejected"),
		"differential: DryRun(true) container vs normal container; (a) 2 registrations incl. <=1 decorator, optional fields, <=2 scopes; (b) 1 ctor with groups/flatten/names/result objects; (c) 2 registrations incl. a decorator with two keys (one of them not consumed) / extra dependency / no input, 2 Invokes; (d) 2 registrations incl. a decorator over <=2 scopes with RecoverFromPanics and DeferAcyclicVerification free in both containers; (e) variadic constructors, decorators and invoked functions", "the quick entries, each explored a second time with z3 4.8.12 (--cross z3), 200 paths validated natively",
		stubs, uf, "user functions never fail")
	reg("C18", d("verifC18a", "verifC18b", "verifC18c", "verifC18d", "verifC18e", "verifC18f"), d("verifC18a", "verifC18b", "verifC18c", "verifC18d", "verifC18e", "verifC18f"),
		d("(go.uber.org/dig.paramSingle).DotParam", "(go.uber.org/dig.paramObject).DotParam", "(go.uber.org/dig.resultSingle).DotResult", "(go.uber.org/dig.resultGrouped).DotResult", provide, decorate, invoke),
		d("provide-info", "decorate-info", "invoke-info", "info-optional", "info-group", "info-2outputs", "rejected-info-untouched", "reused-info", "cycle-rejected-info-untouched"),
		"one signature per call from the descriptor grammar: <=2 params (positional, object field, nested object field, names, optional, group, soft), <=2 results (positional/object, names, groups, flatten, As), variadic; FillProvideInfo / FillDecorateInfo / FillInvokeInfo; a second call with a pre-populated Info struct (rejected: untouched; accepted: rewritten); (d) a second generated constructor (into the root or a child scope) that may close a cycle with the first; (e) two constructors with result objects and As(vI0) / As(vI0,vI1) / no As (possibly the same Out struct type)", "the quick entries, each explored a second time with z3 4.8.12 (--cross z3), 200 paths validated natively",
		stubs, uf, "distinct-function => distinct-ID is not decided (IDs are code pointers fabricated by the engine)")
	reg("C19", d("verifC19a", "verifC19b"), d("verifC19a", "verifC19b"),
		d("go.uber.org/dig.Visualize", "go.uber.org/dig.visualizeGraph", "go.uber.org/dig.visualizeCtor", "go.uber.org/dig.visualizeGroup", "(*go.uber.org/dig/internal/dot.Graph).AddCtor", "(*go.uber.org/dig/internal/dot.Graph).PruneSuccess", "go.uber.org/dig.CanVisualizeError"),
		d("two-clusters", "group-node", "group-2members", "dashed-edge", "rejected-registration", "missing-type-picture", "ctor-failure-picture", "transitive-failure", "grandchild-cluster", "decorator-failure-picture"),
		"(a) 1-3 registrations drawn from a catalogue of 14 declared constructors (plain, named, optional, group feeders/consumers, failing) into root, a child or a grandchild scope, duplicates rejected; the DOT text is parsed and compared with the catalogue descriptors; (b) 1-2 registrations, optionally a decorator of *vV3 in a free scope, then a failing Invoke (missing type, failing constructor / group feeder, or failing decorator) and VisualizeError", "the quick entries, each explored a second time with z3 4.8.12 (--cross z3), 200 paths validated natively",
		stubs, "concrete declared functions and types; the DOT text is produced by dig's code through the engine's fmt model (S3)", "no symbolic data: the solver contributes the enumeration of histories only (weakest fit, see DESIGN.md)")
	reg("C20", d("verifC20a", "verifC20b", "verifC20c"), d("verifC20a", "verifC20b", "verifC20c"),
		d(cnCall, dnCall, "go.uber.org/dig.WithProviderCallback"),
		d("callback-ok", "callback-error", "callback-panic", "callback-runtime", "callback-silent"),
		"(a) 2 ctors with callbacks on a free subset, faults free (ok/error/panic on executions 1,2), RecoverFromPanics free, 2 Invokes; (b) <=1 decorator with callback, <=2 scopes; (c) 2 registrations incl. <=1 decorator, error result first or last; DryRun(true),DryRun(false) may precede the other options; clock readings symbolic (every user function advances the clock by a symbolic 0<=dt<2^40)", "the quick entries, each explored a second time with z3 4.8.12 (--cross z3), 200 paths validated natively",
		stubs, uf, "CallbackInfo.Name is not checked for MakeFunc functions (they share one code pointer)")
}
