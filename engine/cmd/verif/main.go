package main

import (
	"flag"
	"fmt"
	"os"
	"path/filepath"
	"strings"
	"time"

	"verif/engine/gosym"
)

func main() {
	if len(os.Args) < 2 {
		fmt.Fprintln(os.Stderr, "usage: verif explore|check ...")
		os.Exit(2)
	}
	switch os.Args[1] {
	case "explore":
		explore(os.Args[2:])
	case "check":
		os.Exit(check(os.Args[2:]))
	case "replay":
		os.Exit(replayCmd(os.Args[2:]))
	default:
		fmt.Fprintln(os.Stderr, "unknown command")
		os.Exit(2)
	}
}

func loadOverlay(repo, harnessDir string) map[string][]byte {
	ov := map[string][]byte{}
	files, _ := filepath.Glob(filepath.Join(harnessDir, "zz_verif_*.go"))
	for _, f := range files {
		if strings.HasSuffix(f, "_test.go") {
			continue
		}
		b, err := os.ReadFile(f)
		if err != nil {
			panic(err)
		}
		ov[filepath.Join(repo, filepath.Base(f))] = b
	}
	return ov
}

func explore(args []string) {
	fs := flag.NewFlagSet("explore", flag.ExitOnError)
	repo := fs.String("repo", "/repo", "")
	harness := fs.String("harness", "/verif/harness", "")
	entry := fs.String("entry", "", "")
	workers := fs.Int("workers", 16, "")
	solver := fs.String("solver", "z3-new", "")
	maxPaths := fs.Int64("max-paths", 0, "")
	verbose := fs.Bool("v", false, "")
	budget := fs.Int("budget", 60, "seconds")
	dump := fs.String("dump", "", "directory for replay files of violations")
	fs.Parse(args)
	P, err := gosym.Load(*repo, loadOverlay(*repo, *harness), "verif")
	if err != nil {
		fmt.Fprintln(os.Stderr, "load:", err)
		os.Exit(2)
	}
	res, err := P.Explore(gosym.Config{Entry: *entry, Workers: *workers, Solver: *solver, MaxPaths: *maxPaths, Verbose: *verbose, SampleMod: 101, MaxSamples: 3, Deadline: time.Now().Add(time.Duration(*budget) * time.Second)})
	if err != nil {
		fmt.Fprintln(os.Stderr, "explore:", err)
		os.Exit(2)
	}
	fmt.Printf("paths=%d done=%d pruned=%d forks=%d steps=%d exhaustive=%v wall=%s queries=%d solverwall=%s z3asserts=%d rewr=%d\n",
		res.Paths, res.Done, res.Pruned, res.Forks, res.Steps, res.Exhaustive, res.Wall, res.Queries, res.SolverWall, res.AssertsZ3, res.AssertsRewr)
	fmt.Println("witnesses:", res.Witnesses)
	seen := map[string]bool{}
	for i, v := range res.Violations {
		for _, vv := range v.Violations {
			if seen[vv.Clause] {
				continue
			}
			seen[vv.Clause] = true
			fmt.Printf("VIOL %s %s obs=%v\n", vv.Clause, vv.Detail, v.Observes)
			if *dump != "" {
				p2 := v
				p2.Model = vv.Model
				f := filepath.Join(*dump, fmt.Sprintf("v%d.json", i))
				writeJSON(f, buildReplay("X", *entry, p2, vv.Clause, "assert"))
				fmt.Println("  replay:", f)
			}
		}
	}
	for i, v := range res.Fuel {
		if i < 3 {
			fmt.Printf("FUEL %s obs=%v\n", v.Detail, v.Observes)
			if *dump != "" && v.Model != nil {
				f := filepath.Join(*dump, fmt.Sprintf("fuel%d.json", i))
				writeJSON(f, buildReplay("X", *entry, v, "X.term", "fuel"))
				fmt.Println("  replay:", f)
			}
		}
	}
	fmt.Println("fuel paths:", len(res.Fuel))
	for _, v := range res.Panics {
		fmt.Printf("PANIC %s\n", v.Detail)
	}
	for i, v := range res.Errors {
		if i < 5 {
			fmt.Printf("ERROR %s\n", v.Detail)
		}
	}
	for _, s := range res.Inconclusive {
		fmt.Println("INCONCLUSIVE", s)
	}
	for _, s := range res.Samples {
		fmt.Printf("SAMPLE obs=%v model=%v\n", s.Observes, s.Model)
	}
}
